(* Proofs/StorageProofs.v — hostsfile.Parse reports every line exactly once, and
   DefaultStorage's two indexes are the first-seen, duplicate-free projections of
   the (address, name) pairs it was fed (C08). *)
From Verif Require Import Base.GoPrim Base.Strings Std.Bufio Model.Hosts Model.Storage Proofs.BufioProofs.

(* ================= Parse ================= *)
Section ParseProofs.
  Variable A : Type.
  Variable parse_addr_o : gostring -> option A.
  Variable valid : gostring -> bool.

  (* the single event of line number n *)
  Definition line_event (src : gostring) (n : Z) (l : gostring) : pevent A :=
    let r := unmarshal_text A parse_addr_o valid l in
    match ur_err r, ur_addr r, ur_names r with
    | None, Some a, Some names => PAdd src a names
    | Some e, _, _ => PInvalid src l n e
    | None, _, _ => PInvalid src l n ErrEmptyLine
    end.

  Fixpoint numbered (n : Z) (ls : list gostring) : list (Z * gostring) :=
    match ls with
    | [] => []
    | l :: t => (n, l) :: numbered (n + 1) t
    end.

  Lemma parse_lines_events src : forall ls n,
    parse_lines A parse_addr_o valid src n ls = map (fun p => line_event src (fst p) (snd p)) (numbered n ls).
  Proof. induction ls as [|l t IH]; intros n; simpl; [reflexivity|]. rewrite IH. reflexivity. Qed.

  Lemma numbered_nth : forall ls n i l, nth_error ls i = Some l ->
    nth_error (numbered n ls) i = Some (n + Z.of_nat i, l).
  Proof.
    induction ls as [|x t IH]; intros n i l H; destruct i as [|i]; simpl in *; try discriminate.
    - inversion H. rewrite Z.add_0_r. reflexivity.
    - rewrite (IH (n + 1) i l H). f_equal. f_equal. lia.
  Qed.

  Lemma numbered_length ls n : length (numbered n ls) = length ls.
  Proof. revert n; induction ls; intros; simpl; [reflexivity|]. rewrite IHls. reflexivity. Qed.

  (* Parse = its specification, whatever the fragmentation *)
  Theorem parse_run_spec limit src rs handles :
    Forall (fun l => len l < limit) (split_on lf (delivered rs)) ->
    progress_ok 0 rs = true ->
    parse_run A parse_addr_o valid limit src rs handles = parse_spec A parse_addr_o valid src rs handles.
  Proof.
    intros H1 H2. unfold parse_run, parse_spec. rewrite (scan_all_spec limit rs H1 H2). reflexivity.
  Qed.

  (* every line yields exactly one event, in order, carrying its 1-based number and the source name *)
  Theorem parse_spec_events src rs handles :
    fst (parse_spec A parse_addr_o valid src rs handles) =
    map (fun p => line_event src (fst p) (snd p)) (numbered 1 (scan_lines (delivered rs))).
  Proof. unfold parse_spec. cbn [fst]. apply parse_lines_events. Qed.

  Theorem parse_spec_event_i src rs handles i l :
    nth_error (scan_lines (delivered rs)) i = Some l ->
    nth_error (fst (parse_spec A parse_addr_o valid src rs handles)) i = Some (line_event src (1 + Z.of_nat i) l) /\
    length (fst (parse_spec A parse_addr_o valid src rs handles)) = length (scan_lines (delivered rs)).
  Proof.
    intros H. rewrite parse_spec_events. split.
    - rewrite nth_error_map, (numbered_nth _ 1 i l H). reflexivity.
    - rewrite map_length, numbered_length. reflexivity.
  Qed.

  (* the returned error lists exactly the numbers of the rejected lines *)
  Lemma invalid_lines_spec src : forall ls n,
    invalid_lines A (parse_lines A parse_addr_o valid src n ls) =
    map fst (filter (fun p => match line_event src (fst p) (snd p) with PInvalid _ _ _ _ => true | _ => false end)
                    (numbered n ls)).
  Proof.
    induction ls as [|l t IH]; intros n; [reflexivity|].
    cbn [parse_lines numbered filter]. unfold invalid_lines in *. cbn [flat_map]. rewrite IH.
    unfold line_event. cbn [fst snd].
    destruct (ur_err (unmarshal_text A parse_addr_o valid l)); [reflexivity|].
    destruct (ur_addr (unmarshal_text A parse_addr_o valid l)); [|reflexivity].
    destruct (ur_names (unmarshal_text A parse_addr_o valid l)); reflexivity.
  Qed.

  Theorem parse_spec_ret src rs handles :
    snd (parse_spec A parse_addr_o valid src rs handles) =
    match end_of rs with
    | EndEOF =>
        if handles then RetNil
        else match map fst (filter (fun p => match line_event src (fst p) (snd p) with PInvalid _ _ _ _ => true | _ => false end)
                                   (numbered 1 (scan_lines (delivered rs)))) with
             | [] => RetNil
             | ls => RetParsing ls
             end
    | _ => RetScanning
    end.
  Proof. unfold parse_spec, parse_ret_of. cbn [snd]. rewrite invalid_lines_spec. reflexivity. Qed.
End ParseProofs.

(* ================= DefaultStorage ================= *)
Section FirstSeen.
  Variables K V : Type.
  Variable keqb : K -> K -> bool.
  Variable key : V -> K.
  Hypothesis keqb_spec : forall x y, keqb x y = true <-> x = y.

  Definition kmem (k : K) (l : list K) : bool := existsb (keqb k) l.

  (* the first occurrence of every key, in order; [seen]: keys already taken *)
  Fixpoint first_seen (seen : list K) (l : list V) : list V :=
    match l with
    | [] => []
    | x :: t => if kmem (key x) seen then first_seen seen t
                else x :: first_seen (seen ++ [key x]) t
    end.

  Definition snoc_new (acc : list V) (x : V) : list V :=
    if kmem (key x) (map key acc) then acc else acc ++ [x].

  Lemma fold_snoc_first_seen : forall l acc,
    fold_left snoc_new l acc = acc ++ first_seen (map key acc) l.
  Proof.
    induction l as [|x t IH]; intros acc; cbn [fold_left first_seen]; [rewrite app_nil_r; reflexivity|].
    unfold snoc_new at 2. destruct (kmem (key x) (map key acc)) eqn:E.
    - apply IH.
    - rewrite IH, map_app, <- app_assoc. reflexivity.
  Qed.

  Lemma kmem_in k l : kmem k l = true <-> In k l.
  Proof.
    unfold kmem. rewrite existsb_exists. split.
    - intros (x & Hx & He). apply keqb_spec in He. subst. exact Hx.
    - intros H. exists k. split; [exact H|apply keqb_spec; reflexivity].
  Qed.

  Lemma first_seen_in : forall l seen v, In v (first_seen seen l) -> In v l /\ ~ In (key v) seen.
  Proof.
    induction l as [|x t IH]; intros seen v H; cbn [first_seen] in H; [contradiction|].
    destruct (kmem (key x) seen) eqn:E.
    - destruct (IH _ _ H). split; [right|]; assumption.
    - destruct H as [<-|H].
      + split; [left; reflexivity|]. intros Hin. apply kmem_in in Hin. congruence.
      + destruct (IH _ _ H) as [H1 H2]. split; [right; exact H1|].
        intros Hin. apply H2. apply in_or_app. left. exact Hin.
  Qed.

  Lemma first_seen_complete : forall l seen k, In k (map key l) ->
    In k seen \/ In k (map key (first_seen seen l)).
  Proof.
    induction l as [|x t IH]; intros seen k H; cbn [first_seen map] in *; [contradiction|].
    destruct (kmem (key x) seen) eqn:E.
    - destruct H as [<-|H]; [left; apply kmem_in; exact E|apply IH; exact H].
    - destruct H as [<-|H]; [right; left; reflexivity|].
      destruct (IH (seen ++ [key x]) k H) as [Hs|Hr].
      + apply in_app_or in Hs as [Hs|[<-|[]]]; [left; exact Hs|right; left; reflexivity].
      + right. right. exact Hr.
  Qed.

  Lemma first_seen_nodup : forall l seen, NoDup (map key (first_seen seen l)).
  Proof.
    induction l as [|x t IH]; intros seen; cbn [first_seen]; [constructor|].
    destruct (kmem (key x) seen) eqn:E; [apply IH|].
    cbn [map]. constructor; [|apply IH].
    intros Hin. apply in_map_iff in Hin as (v & Hk & Hv).
    apply first_seen_in in Hv as [_ Hv]. apply Hv. apply in_or_app. right. left. symmetry. exact Hk.
  Qed.

  (* membership: the first-seen list has exactly the keys of the input *)
  Lemma first_seen_keys l k : In k (map key (first_seen [] l)) <-> In k (map key l).
  Proof.
    split.
    - intros H. apply in_map_iff in H as (v & <- & Hv). apply first_seen_in in Hv as [Hv _].
      apply in_map. exact Hv.
    - intros H. destruct (first_seen_complete l [] k H) as [[]|H']. exact H'.
  Qed.
End FirstSeen.

Arguments first_seen {K V}.
Arguments snoc_new {K V}.

Section StorageProofs.
  Variable A : Type.
  Variable aeqb : A -> A -> bool.
  Variable lower : gostring -> gostring.
  Hypothesis aeqb_spec : forall x y, aeqb x y = true <-> x = y.

  Notation storage := (storage A).
  Notation add_name := (add_name A aeqb lower).
  Notation by_addr := (by_addr A aeqb).
  Notation by_name := (by_name A lower).

  Notation pair_t := (A * gostring)%type.

  Definition add_pair (s : storage) (p : pair_t) : storage := add_name (fst p) s (snd p).

  Definition pairs (recs : list (A * list gostring)) : list pair_t :=
    flat_map (fun r => map (pair (fst r)) (snd r)) recs.

  (* the names fed with address a / the addresses fed with a name lower-casing to l, in feeding order *)
  Definition names_with (ps : list pair_t) (a : A) : list gostring :=
    flat_map (fun p => if aeqb (fst p) a then [snd p] else []) ps.
  Definition addrs_with (ps : list pair_t) (l : gostring) : list A :=
    flat_map (fun p => if eqb_str (lower (snd p)) l then [fst p] else []) ps.

  Lemma storage_add_pairs s a names :
    storage_add A aeqb lower s a names = fold_left add_pair (map (pair a) names) s.
  Proof.
    unfold storage_add. destruct names as [|n t]; [reflexivity|].
    generalize (n :: t). intros l. revert s. induction l as [|x l IH]; intros s; [reflexivity|].
    cbn [fold_left map]. rewrite IH. reflexivity.
  Qed.

  Lemma storage_run_pairs recs :
    storage_run A aeqb lower recs = fold_left add_pair (pairs recs) (storage_new A).
  Proof.
    unfold storage_run, pairs. generalize (storage_new A). induction recs as [|r t IH]; intros s; [reflexivity|].
    cbn [fold_left flat_map]. rewrite fold_left_app, IH, storage_add_pairs. reflexivity.
  Qed.

  (* association lists *)
  Lemma assoc_get_set {K V} (eqb : K -> K -> bool) (Heq : forall x y, eqb x y = true <-> x = y) :
    forall (m : list (K * V)) k k0 v,
    assoc_get eqb k (assoc_set eqb k0 v m) = if eqb k k0 then Some v else assoc_get eqb k m.
  Proof.
    induction m as [|[k' v'] t IH]; intros k k0 v; cbn [assoc_set assoc_get].
    - destruct (eqb k k0); reflexivity.
    - destruct (eqb k0 k') eqn:E0.
      + apply Heq in E0. subst k'. cbn [assoc_get]. destruct (eqb k k0); reflexivity.
      + cbn [assoc_get]. destruct (eqb k k') eqn:E1.
        * apply Heq in E1. subst k'. destruct (eqb k k0) eqn:E2; [|reflexivity].
          apply Heq in E2. subst k0. assert (eqb k k = true) by (apply Heq; reflexivity). congruence.
        * apply IH.
  Qed.

  Definition names_entry (s : storage) (a : A) : oset gostring :=
    match assoc_get aeqb a (st_names A s) with Some o => o | None => empty_oset end.
  Definition addrs_entry (s : storage) (l : gostring) : oset A :=
    match assoc_get eqb_str l (st_addrs A s) with Some o => o | None => empty_oset end.

  Definition dedup_names : list gostring -> list gostring := first_seen eqb_str lower [].
  Definition dedup_addrs : list A -> list A := first_seen aeqb (fun a => a) [].

  (* the representation invariant, relative to the pairs fed so far *)
  Definition SInv (s : storage) (ps : list pair_t) : Prop :=
    (forall a, let o := names_entry s a in
       os_vals o = fold_left (snoc_new eqb_str lower) (names_with ps a) [] /\
       (forall k, existsb (eqb_str k) (os_keys o) = existsb (eqb_str k) (map lower (os_vals o)))) /\
    (forall l, let o := addrs_entry s l in
       os_vals o = fold_left (snoc_new aeqb (fun a => a)) (addrs_with ps l) [] /\
       (forall k, existsb (aeqb k) (os_keys o) = existsb (aeqb k) (os_vals o))).

  Lemma SInv_new : SInv (storage_new A) [].
  Proof. split; intros x; cbn; split; reflexivity. Qed.

  Lemma existsb_snoc {T} (f : T -> bool) l x : existsb f (l ++ [x]) = existsb f l || f x.
  Proof. rewrite existsb_app. cbn. rewrite orb_false_r. reflexivity. Qed.

  Lemma eqb_str_sym a b : eqb_str a b = eqb_str b a.
  Proof.
    destruct (eqb_str a b) eqn:E1, (eqb_str b a) eqn:E2; try reflexivity.
    - apply eqb_str_spec in E1. subst. assert (eqb_str b b = true) by (apply eqb_str_spec; reflexivity). congruence.
    - apply eqb_str_spec in E2. subst. assert (eqb_str a a = true) by (apply eqb_str_spec; reflexivity). congruence.
  Qed.

  Lemma aeqb_sym a b : aeqb a b = aeqb b a.
  Proof.
    destruct (aeqb a b) eqn:E1, (aeqb b a) eqn:E2; try reflexivity.
    - apply aeqb_spec in E1. subst. assert (aeqb b b = true) by (apply aeqb_spec; reflexivity). congruence.
    - apply aeqb_spec in E2. subst. assert (aeqb a a = true) by (apply aeqb_spec; reflexivity). congruence.
  Qed.

  Lemma SInv_step s ps p : SInv s ps -> SInv (add_pair s p) (ps ++ [p]).
  Proof.
    intros [HN HA]. destruct p as [a0 n]. unfold add_pair, Storage.add_name. cbn [fst snd].
    fold (names_entry s a0). fold (addrs_entry s (lower n)).
    split.
    - intros a. unfold names_entry at 1. cbn [st_names]. rewrite (assoc_get_set aeqb aeqb_spec).
      unfold names_with. rewrite flat_map_app, fold_left_app. cbn [flat_map]. rewrite app_nil_r. cbn [fst snd].
      rewrite (aeqb_sym a a0). pose proof (HN a) as HNa. unfold names_with in HNa.
      destruct (aeqb a0 a) eqn:Ea.
      + apply aeqb_spec in Ea. subst a0. destruct HNa as [Hv Hk]. cbn zeta in Hv, Hk.
        cbn [fold_left].
        match goal with |- context [fold_left ?f (flat_map ?g ps) []] => set (F := fold_left f (flat_map g ps) []) end.
        assert (HvF : os_vals (names_entry s a) = F) by exact Hv. clearbody F. rewrite <- HvF.
        unfold oset_add, snoc_new, kmem.
        rewrite Hk. destruct (existsb (eqb_str (lower n)) (map lower (os_vals (names_entry s a)))) eqn:E.
        * split; [reflexivity|exact Hk].
        * cbn [os_vals os_keys]. split; [reflexivity|]. intros k.
          rewrite map_app. cbn [map]. rewrite existsb_snoc. cbn [existsb]. rewrite Hk. apply orb_comm.
      + cbn [fold_left]. exact HNa.
    - intros l. unfold addrs_entry at 1. cbn [st_addrs]. rewrite (assoc_get_set eqb_str eqb_str_spec).
      unfold addrs_with. rewrite flat_map_app, fold_left_app. cbn [flat_map]. rewrite app_nil_r. cbn [fst snd].
      rewrite (eqb_str_sym l (lower n)). pose proof (HA l) as HAl. unfold addrs_with in HAl.
      destruct (eqb_str (lower n) l) eqn:El.
      + apply eqb_str_spec in El. subst l. destruct HAl as [Hv Hk]. cbn zeta in Hv, Hk.
        cbn [fold_left].
        match goal with |- context [fold_left ?f (flat_map ?g ps) []] => set (F := fold_left f (flat_map g ps) []) end.
        assert (HvF : os_vals (addrs_entry s (lower n)) = F) by exact Hv. clearbody F. rewrite <- HvF.
        unfold oset_add, snoc_new, kmem. rewrite map_id.
        rewrite Hk. destruct (existsb (aeqb a0) (os_vals (addrs_entry s (lower n)))) eqn:E.
        * split; [reflexivity|exact Hk].
        * cbn [os_vals os_keys]. split; [reflexivity|]. intros k.
          rewrite existsb_snoc. cbn [existsb]. rewrite Hk. apply orb_comm.
      + cbn [fold_left]. exact HAl.
  Qed.

  Lemma SInv_fold : forall ps2 s ps1, SInv s ps1 -> SInv (fold_left add_pair ps2 s) (ps1 ++ ps2).
  Proof.
    induction ps2 as [|p t IH]; intros s ps1 H; cbn [fold_left]; [rewrite app_nil_r; exact H|].
    replace (ps1 ++ p :: t) with ((ps1 ++ [p]) ++ t) by (rewrite <- app_assoc; reflexivity).
    apply IH. apply SInv_step. exact H.
  Qed.

  Lemma SInv_run recs : SInv (storage_run A aeqb lower recs) (pairs recs).
  Proof. rewrite storage_run_pairs. apply (SInv_fold (pairs recs) (storage_new A) [] SInv_new). Qed.

  (* ---- the two indexes ---- *)

  Theorem by_addr_spec recs a :
    by_addr (storage_run A aeqb lower recs) a = dedup_names (names_with (pairs recs) a).
  Proof.
    destruct (SInv_run recs) as [HN _]. destruct (HN a) as [Hv _]. cbn zeta in Hv.
    unfold Storage.by_addr. unfold names_entry in Hv. unfold dedup_names.
    rewrite (fold_snoc_first_seen _ _ eqb_str lower) in Hv. cbn [app map] in Hv.
    destruct (assoc_get aeqb a (st_names A (storage_run A aeqb lower recs))); exact Hv.
  Qed.

  Theorem by_name_spec recs h :
    by_name (storage_run A aeqb lower recs) h = dedup_addrs (addrs_with (pairs recs) (lower h)).
  Proof.
    destruct (SInv_run recs) as [_ HA]. destruct (HA (lower h)) as [Hv _]. cbn zeta in Hv.
    unfold Storage.by_name. unfold addrs_entry in Hv. unfold dedup_addrs.
    rewrite (fold_snoc_first_seen _ _ aeqb (fun a => a)) in Hv. cbn [app map] in Hv.
    destruct (assoc_get eqb_str (lower h) (st_addrs A (storage_run A aeqb lower recs))); exact Hv.
  Qed.

  Lemma in_names_with ps a n : In n (names_with ps a) <-> In (a, n) ps.
  Proof.
    unfold names_with. rewrite in_flat_map. split.
    - intros ([a' n'] & Hin & H). cbn [fst snd] in H. destruct (aeqb a' a) eqn:E; [|contradiction].
      apply aeqb_spec in E. subst. destruct H as [<-|[]]. exact Hin.
    - intros H. exists (a, n). split; [exact H|]. cbn [fst snd].
      assert (E : aeqb a a = true) by (apply aeqb_spec; reflexivity). rewrite E. left. reflexivity.
  Qed.

  Lemma in_addrs_with ps l a : In a (addrs_with ps l) <-> exists n, In (a, n) ps /\ lower n = l.
  Proof.
    unfold addrs_with. rewrite in_flat_map. split.
    - intros ([a' n'] & Hin & H). cbn [fst snd] in H. destruct (eqb_str (lower n') l) eqn:E; [|contradiction].
      apply eqb_str_spec in E. destruct H as [<-|[]]. exists n'. split; assumption.
    - intros (n & Hin & Hl). exists (a, n). split; [exact Hin|]. cbn [fst snd].
      assert (E : eqb_str (lower n) l = true) by (apply eqb_str_spec; exact Hl). rewrite E. left. reflexivity.
  Qed.

  (* exactly the associated values *)
  Theorem by_addr_members recs a l :
    In l (map lower (by_addr (storage_run A aeqb lower recs) a)) <->
    exists n, In (a, n) (pairs recs) /\ lower n = l.
  Proof.
    rewrite by_addr_spec. unfold dedup_names. rewrite (first_seen_keys _ _ eqb_str lower eqb_str_spec).
    rewrite in_map_iff. split.
    - intros (n & Hl & Hin). exists n. split; [apply in_names_with; exact Hin|exact Hl].
    - intros (n & Hin & Hl). exists n. split; [exact Hl|apply in_names_with; exact Hin].
  Qed.

  Theorem by_name_members recs h a :
    In a (by_name (storage_run A aeqb lower recs) h) <->
    exists n, In (a, n) (pairs recs) /\ lower n = lower h.
  Proof.
    rewrite by_name_spec. unfold dedup_addrs.
    pose proof (first_seen_keys _ _ aeqb (fun x : A => x) aeqb_spec (addrs_with (pairs recs) (lower h)) a) as H.
    rewrite !map_id in H. rewrite H. apply in_addrs_with.
  Qed.

  (* the two indexes agree *)
  Theorem indexes_agree recs a h :
    In a (by_name (storage_run A aeqb lower recs) h) <->
    In (lower h) (map lower (by_addr (storage_run A aeqb lower recs) a)).
  Proof. rewrite by_name_members, by_addr_members. reflexivity. Qed.

  (* no duplicates *)
  Theorem by_addr_nodup recs a : NoDup (map lower (by_addr (storage_run A aeqb lower recs) a)).
  Proof. rewrite by_addr_spec. apply (first_seen_nodup _ _ eqb_str lower eqb_str_spec). Qed.

  Theorem by_name_nodup recs h : NoDup (by_name (storage_run A aeqb lower recs) h).
  Proof.
    rewrite by_name_spec. pose proof (first_seen_nodup _ _ aeqb (fun x : A => x) aeqb_spec (addrs_with (pairs recs) (lower h)) []) as H.
    rewrite map_id in H. exact H.
  Qed.

  (* a record without names changes nothing *)
  Theorem nameless_noop s a : storage_add A aeqb lower s a [] = s.
  Proof. reflexivity. Qed.

  Theorem nameless_noop_run recs1 recs2 a :
    storage_run A aeqb lower (recs1 ++ (a, []) :: recs2) = storage_run A aeqb lower (recs1 ++ recs2).
  Proof. unfold storage_run. rewrite !fold_left_app. reflexivity. Qed.
End StorageProofs.
