(* Proofs/CacheConc.v — the cache invariants under every interleaving of the
   atomic sections of any number of goroutines (C10). *)
From Verif Require Import Base.GoPrim Model.Cache Proofs.CacheProofs.

Section Conc.
  Variable cf : cconf.
  Variable cb : nat -> gostring -> gostring -> list cop.
  Hypothesis Hcf : conf_ok cf.

  Definition cminv (c : cms) : Prop :=
    cinv cf (cm_st c) /\
    Forall (Forall (task_ok cf)) (cm_threads c) /\
    Forall (fun te => ev_ok cf (snd te)) (cm_trace c).

  Lemma set_thread_ok ts i s :
    Forall (Forall (task_ok cf)) ts -> Forall (task_ok cf) s -> Forall (Forall (task_ok cf)) (set_thread i s ts).
  Proof.
    revert i; induction ts as [|h t IH]; intros i Hts Hs; [destruct i; constructor|].
    inversion Hts; subst. destruct i; simpl; constructor; auto.
  Qed.

  Lemma cstep_inv tid c : cminv c -> exists c', cstep cf cb tid c = Ret c' /\ cminv c'.
  Proof.
    intros (Hc & Hts & Htr). unfold cstep.
    destruct (nth_error (cm_threads c) tid) as [stack|] eqn:En; [|exists c; split; [reflexivity|split; auto]].
    destruct stack as [|t rest] eqn:Es; [exists c; split; [reflexivity|split; auto]|].
    rewrite <- Es in *.
    assert (Hstack : Forall (task_ok cf) stack).
    { rewrite Forall_forall in Hts. apply Hts. eapply nth_error_In. exact En. }
    destruct (step_inv cf cb Hcf (mk_mstate (cm_st c) stack (cm_calls c) []))
      as (ms' & Hs & (Hc' & Hst' & Htr')).
    { unfold minv. simpl. split; [exact Hc|]. split; [exact Hstack|constructor]. }
    rewrite Hs. simpl. eexists. split; [subst stack; reflexivity|].
    unfold cminv. simpl. split; [exact Hc'|]. split.
    - apply set_thread_ok; assumption.
    - apply Forall_app. split; [|exact Htr].
      apply Forall_forall. intros te Hin. apply in_map_iff in Hin as (e & <- & He). simpl.
      rewrite Forall_forall in Htr'. apply Htr'. exact He.
  Qed.

  Lemma crun_inv sched : forall c, cminv c -> exists c', crun cf cb sched c = Ret c' /\ cminv c'.
  Proof.
    induction sched as [|tid rest IH]; intros c Hinv; simpl; [exists c; auto|].
    destruct (cstep_inv tid c Hinv) as (c1 & Hs & Hinv1). rewrite Hs. simpl. apply IH. exact Hinv1.
  Qed.

  Lemma cminv_init progs : cminv (cms_init progs).
  Proof.
    unfold cminv, cms_init. simpl. split; [apply cinv_new; exact Hcf|]. split; [|constructor].
    apply Forall_forall. intros s Hin. apply in_map_iff in Hin as (p & <- & _).
    apply Forall_forall. intros t Ht. apply in_map_iff in Ht as (o & <- & _). exact I.
  Qed.

  (* every schedule, every set of programs: no panic, invariant after every
     atomic section, hence every Stats snapshot within the bounds *)
  Lemma conc_safe progs sched :
    exists c', crun cf cb sched (cms_init progs) = Ret c' /\ cminv c'.
  Proof. apply crun_inv. apply cminv_init. Qed.
End Conc.

(* what a single atomic section can do to the value seen under a key: nothing,
   remove it, or set it to the value a Set ON THAT SAME KEY is writing — never
   another key's value, never a mixture *)
Lemma step_lookup_change cf cb ms ms' :
  NoDup (keys (cs_entries (ms_st ms))) -> step cf cb ms = Ret ms' ->
  forall k', lookup k' (ms_st ms') = lookup k' (ms_st ms) \/
             lookup k' (ms_st ms') = None \/
             exists v rest, (ms_stack ms = TSetLoop k' v :: rest \/ ms_stack ms = TOp (CSet k' v) :: rest) /\
                            lookup k' (ms_st ms') = Some v.
Proof.
  intros Hnd Hs k'.
  assert (Hins : forall rest k v, do_insert cf ms rest k v = Ret ms' ->
            (ms_stack ms = TSetLoop k v :: rest \/ ms_stack ms = TOp (CSet k v) :: rest) ->
            lookup k' (ms_st ms') = lookup k' (ms_st ms) \/ lookup k' (ms_st ms') = None \/
            exists v0 rest0, (ms_stack ms = TSetLoop k' v0 :: rest0 \/ ms_stack ms = TOp (CSet k' v0) :: rest0) /\
                             lookup k' (ms_st ms') = Some v0).
  { intros rest k v Hi Hst. destruct (insert_spec cf ms rest k v ms' Hnd Hi) as (H1 & H2 & _).
    destruct (eqb_str k' k) eqn:E.
    - apply eqb_str_spec in E. subst k'. right. right. exists v, rest. split; assumption.
    - left. apply H2. intros ->. rewrite eqb_str_refl in E. discriminate. }
  destruct (ms_stack ms) as [|t rest] eqn:Es.
  - unfold step in Hs. rewrite Es in Hs. inversion Hs; subst. left; reflexivity.
  - destruct t as [[k v|k|k| |]|k v].
    + unfold step in Hs. rewrite Es in Hs.
      destruct (cf_max_elem cf <? len k + len v); [inversion Hs; subst; left; reflexivity|].
      destruct (cf_lru cf); [inversion Hs; subst; left; reflexivity|].
      destruct (needs_room cf (ms_st ms) (len k + len v)); [inversion Hs; subst; left; reflexivity|].
      apply (Hins rest k v Hs). right. reflexivity.
    + left. destruct (get_spec cf cb ms k rest ms' Hnd Es Hs) as (_ & H & _). apply H.
    + destruct (del_spec cf cb ms k rest ms' Hnd Es Hs) as [H1 H2].
      destruct (eqb_str k' k) eqn:E.
      * apply eqb_str_spec in E. subst. right; left. exact H1.
      * left. apply H2. intros ->. rewrite eqb_str_refl in E. discriminate.
    + right; left. rewrite (clear_spec cf cb ms rest ms' Es Hs). reflexivity.
    + unfold step in Hs. rewrite Es in Hs. inversion Hs; subst. left; reflexivity.
    + destruct (needs_room cf (ms_st ms) (len k + len v)) eqn:Eroom.
      * destruct (evict_spec cf cb ms k v rest ms' Hnd Es Eroom Hs) as (e & es & _ & _ & H1 & H2 & _).
        destruct (eqb_str k' (ce_key e)) eqn:E.
        -- apply eqb_str_spec in E. subst. right; left. exact H1.
        -- left. apply H2. intros ->. rewrite eqb_str_refl in E. discriminate.
      * unfold step in Hs. rewrite Es, Eroom in Hs. apply (Hins rest k v Hs). left. reflexivity.
Qed.
