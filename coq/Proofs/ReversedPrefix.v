(* Proofs/ReversedPrefix.v — PrefixFromReversedAddr decodes exactly the names
   "k <= 4 canonical decimal octets . in-addr.arpa" and "k <= 32 single hex digits .
   ip6.arpa" to the prefix they spell (C05). *)
From Verif Require Import Base.GoPrim Base.Strings Base.ByteFm Proofs.PrefixBits Gen.Consts Gen.BytePreds Std.Netip Std.Net
  Model.Addr Model.Ip Model.Reversed Proofs.AddrProofs Proofs.BufioProofs Proofs.ReversedBasics Proofs.ReversedTotal
  Proofs.ReversedRoundtrip Proofs.ReversedLanguage.

Ltac Zify.zify_post_hook ::= Z.div_mod_to_equations.

(* ================= strings ================= *)

Lemma last_idx_from_app c : forall p q i best,
  last_idx_from c (p ++ q) i best = last_idx_from c q (i + len p) (last_idx_from c p i best).
Proof.
  induction p as [|x p IH]; intros q i best; cbn [app last_idx_from].
  - rewrite len_nil. f_equal. lia.
  - rewrite IH, len_cons. f_equal. lia.
Qed.

Lemma last_idx_from_none c : forall q i best, Forall (fun x => x <> c) q -> last_idx_from c q i best = best.
Proof.
  induction q as [|x q IH]; intros i best H; [reflexivity|]. inversion H as [|? ? Hx Hq]; subst.
  cbn [last_idx_from]. apply Z.eqb_neq in Hx. rewrite Hx. apply IH. exact Hq.
Qed.

Lemma last_index_dot_app p lab : Forall (fun x => x <> 46) lab -> last_index_dot (p ++ 46 :: lab) = len p.
Proof.
  intros H. unfold last_index_dot. rewrite last_idx_from_app. cbn [last_idx_from]. rewrite Z.eqb_refl.
  rewrite last_idx_from_none by exact H. lia.
Qed.

Lemma last_index_dot_none lab : Forall (fun x => x <> 46) lab -> last_index_dot lab = -1.
Proof. intros H. unfold last_index_dot. apply last_idx_from_none. exact H. Qed.

Lemma slice_to_app {A} (p q : list A) : slice_to (p ++ q) (len p) = Ret p.
Proof.
  unfold slice_to. rewrite slice_ret; [|lia|apply len_nonneg|rewrite len_app; pose proof (len_nonneg q); lia].
  f_equal. cbn [Z.to_nat skipn]. replace (Z.to_nat (len p - 0)) with (length p) by (unfold len; lia).
  rewrite firstn_app, Nat.sub_diag, firstn_all. cbn [firstn]. apply app_nil_r.
Qed.

Lemma slice_from_app {A} (p q : list A) : slice_from (p ++ q) (len p) = Ret q.
Proof.
  unfold slice_from. rewrite slice_ret; [|apply len_nonneg|rewrite len_app; pose proof (len_nonneg q); lia|lia].
  f_equal. replace (Z.to_nat (len p)) with (length p) by (unfold len; lia). rewrite skipn_app, skipn_all, Nat.sub_diag. cbn [skipn app].
  apply firstn_all2. rewrite len_app. unfold len. lia.
Qed.

Lemma idx_app_head p c q : idx (p ++ c :: q) (len p) = Ret c.
Proof.
  rewrite idx_ret_nth by (rewrite len_app, len_cons; pose proof (len_nonneg p); pose proof (len_nonneg q); lia).
  f_equal. replace (Z.to_nat (len p)) with (length p) by (unfold len; lia). rewrite app_nth2 by lia. rewrite Nat.sub_diag. reflexivity.
Qed.

(* ================= IPv4: the label loop ================= *)

(* the text of the octets [l] (in address order): last octet first *)
Fixpoint joinr (l : list Z) : gostring :=
  match l with
  | [] => []
  | [x] => itoa x
  | x :: t => joinr t ++ 46 :: itoa x
  end.

Lemma joinr_cons x y t : joinr (x :: y :: t) = joinr (y :: t) ++ 46 :: itoa x.
Proof. reflexivity. Qed.

Lemma itoa_head x : byte x -> exists c t, itoa x = c :: t /\ ((c =? 48) && (1 <? len (itoa x)) = false).
Proof.
  intros Hx. pose proof itoa_no_leading_zero_sweep as S. rewrite forallb_forall in S.
  specialize (S x (in_bytes256' x Hx)). apply negb_true_iff in S.
  destruct (itoa_nonempty x Hx) as (c & t & E & _). exists c, t. split; [exact E|]. rewrite E in S at 1. exact S.
Qed.

Lemma joinr_len_pos l : l <> [] -> Forall byte l -> 1 <= len (joinr l).
Proof.
  intros Hne Hb. destruct l as [|x [|y t]]; [contradiction| |].
  - inversion Hb; subst. pose proof (itoa_len_pos x ltac:(assumption)). cbn [joinr]. lia.
  - rewrite joinr_cons, len_app, len_cons. inversion Hb; subst. pose proof (itoa_len_pos x ltac:(assumption)).
    pose proof (len_nonneg (joinr (y :: t))). lia.
Qed.

Lemma ipv4_net_loop_joinr : forall l fuel ip, Forall byte l -> l <> [] -> (length l <= fuel)%nat -> len ip + len l <= 4 ->
  ipv4_net_loop fuel (joinr l) ip = Ret (Ok (ip ++ l)).
Proof.
  induction l as [|x t IH]; intros fuel ip Hb Hne Hf Hlen; [contradiction|].
  inversion Hb as [|? ? Hx Ht]; subst. destruct fuel as [|fuel]; [cbn [length] in Hf; lia|].
  destruct (itoa_head x Hx) as (c0 & tl0 & E0 & Hlz). pose proof (itoa_len_pos x Hx) as Hlx.
  rewrite len_cons in Hlen. pose proof (len_nonneg ip) as Hip. pose proof (len_nonneg t) as Hlt.
  destruct t as [|y t].
  - (* the last label: no dot before it *)
    cbn [joinr ipv4_net_loop]. destruct (Z.eqb_spec (len (itoa x)) 0); [lia|].
    rewrite (last_index_dot_none (itoa x)) by (apply itoa_nodot; exact Hx).
    change (-1 + 1) with 0. change (slice_from (itoa x) 0) with (slice_from ([] ++ itoa x) (len (@nil Z))). rewrite slice_from_app.
    cbn [bind app]. rewrite itoa_uint8 by exact Hx. rewrite E0 at 1. change (idx (c0 :: tl0) 0) with (idx ([] ++ c0 :: tl0) (len (@nil Z))).
    rewrite idx_app_head. cbn [bind]. rewrite Z.sub_0_r, Hlz.
    destruct (Z.leb_spec 4 (len ip)); [lia|]. cbn [Z.eqb]. reflexivity.
  - rewrite joinr_cons. cbn [ipv4_net_loop].
    assert (Hp : 1 <= len (joinr (y :: t))) by (apply joinr_len_pos; [discriminate|exact Ht]).
    destruct (Z.eqb_spec (len (joinr (y :: t) ++ 46 :: itoa x)) 0) as [E|_].
    { rewrite len_app, len_cons in E. lia. }
    rewrite last_index_dot_app by (apply itoa_nodot; exact Hx).
    replace (joinr (y :: t) ++ 46 :: itoa x) with ((joinr (y :: t) ++ [46]) ++ itoa x) at 1 by (rewrite <- app_assoc; reflexivity).
    replace (len (joinr (y :: t)) + 1) with (len (joinr (y :: t) ++ [46])) by (rewrite len_app; reflexivity).
    rewrite slice_from_app. cbn [bind]. rewrite itoa_uint8 by exact Hx.
    replace (joinr (y :: t) ++ 46 :: itoa x) with ((joinr (y :: t) ++ [46]) ++ c0 :: tl0) at 1 by (rewrite <- app_assoc, E0; reflexivity).
    rewrite idx_app_head. cbn [bind].
    replace (len (joinr (y :: t) ++ 46 :: itoa x) - len (joinr (y :: t) ++ [46])) with (len (itoa x))
      by (rewrite !len_app, len_cons; change (len [46]) with 1; lia).
    rewrite Hlz. destruct (Z.leb_spec 4 (len ip)); [lia|].
    destruct (Z.eqb_spec (len (joinr (y :: t) ++ [46])) 0) as [E|_]; [rewrite len_app in E; change (len [46]) with 1 in E; lia|].
    replace (len (joinr (y :: t) ++ [46]) - 1) with (len (joinr (y :: t))) by (rewrite len_app; change (len [46]) with 1; lia).
    rewrite slice_to_app. cbn [bind].
    rewrite IH; [rewrite <- app_assoc; reflexivity|exact Ht|discriminate|cbn [length] in *; lia|rewrite len_app; change (len [x]) with 1; lia].
Qed.

(* ---- the loop, inverted ---- *)

Lemma last_index_dot_decomp : forall s,
  (last_index_dot s = -1 /\ Forall (fun x => x <> 46) s) \/
  (exists p lab, s = p ++ 46 :: lab /\ Forall (fun x => x <> 46) lab /\ last_index_dot s = len p).
Proof.
  induction s as [|x t IH]; [left; split; [reflexivity|constructor]|].
  destruct IH as [[_ Hn]|(p & lab & -> & Hl & _)].
  - destruct (Z.eq_dec x 46) as [->|Hx].
    + right. exists [], t. split; [reflexivity|]. split; [exact Hn|]. apply (last_index_dot_app [] t Hn).
    + left. assert (Hall : Forall (fun y => y <> 46) (x :: t)) by (constructor; assumption).
      split; [apply last_index_dot_none|]; exact Hall.
  - right. exists (x :: p), lab. split; [reflexivity|]. split; [exact Hl|]. apply (last_index_dot_app (x :: p) lab Hl).
Qed.

Lemma parse_uint8_from_inv : forall t n v, parse_uint8_from t n = Some v -> 1 <= n <= 255 ->
  itoa v = itoa n ++ t /\ byte v.
Proof.
  induction t as [|d t IH]; intros n v H Hn; cbn [parse_uint8_from] in H.
  - injection H as <-. rewrite app_nil_r. split; [reflexivity|unfold byte; lia].
  - destruct (is_digit d) eqn:Ed; [|discriminate]. destruct (255 <? n * 10 + (d - 48)) eqn:Eo; [discriminate|].
    apply Z.ltb_ge in Eo. pose proof (is_digit_range d Ed) as Hd.
    destruct (IH _ v H ltac:(lia)) as [Hi Hb]. split; [|exact Hb].
    rewrite Hi, itoa_snoc by lia. rewrite <- app_assoc. cbn [app]. do 2 f_equal. lia.
Qed.

Lemma parse_uint8_inv lab v : parse_uint8 lab = Some v -> (hd 0 lab =? 48) && (1 <? len lab) = false ->
  lab = itoa v /\ byte v.
Proof.
  intros H Hlz. destruct lab as [|c t]; [discriminate|]. cbn [parse_uint8 parse_uint8_from] in H.
  destruct (is_digit c) eqn:Ed; [|discriminate]. pose proof (is_digit_range c Ed) as Hc.
  destruct (255 <? 0 * 10 + (c - 48)) eqn:Eo; [discriminate|]. cbn [hd] in Hlz.
  destruct (Z.eq_dec c 48) as [->|Hne].
  - rewrite Z.eqb_refl in Hlz. cbn [andb] in Hlz. apply Z.ltb_ge in Hlz. rewrite len_cons in Hlz. pose proof (len_nonneg t).
    destruct t as [|d t]; [|rewrite len_cons in Hlz; pose proof (len_nonneg t); lia].
    cbn in H. injection H as <-. split; [reflexivity|unfold byte; lia].
  - destruct (parse_uint8_from_inv t _ v H ltac:(lia)) as [Hi Hb]. split; [|exact Hb].
    rewrite Hi. assert (Hbc : byte (0 * 10 + (c - 48))) by (unfold byte; lia).
    destruct (itoa_shape _ Hbc) as [[_ ->]|[[? _]|[? _]]]; [|lia|lia]. cbn [app]. f_equal. lia.
Qed.

Lemma slice_from_inv {A} (s : list A) a r : slice_from s a = Ret r -> 0 <= a <= len s /\ r = skipn (Z.to_nat a) s.
Proof.
  unfold slice_from, slice. destruct ((a <? 0) || (len s <? a) || (len s <? len s)) eqn:E; [discriminate|].
  apply orb_false_iff in E as [E _]. apply orb_false_iff in E as [E1 E2]. apply Z.ltb_ge in E1, E2.
  intros H. injection H as <-. split; [lia|]. apply firstn_all2. rewrite skipn_length. unfold len. lia.
Qed.

Lemma ipv4_net_loop_inv : forall fuel addr ip r, ipv4_net_loop fuel addr ip = Ret (Ok r) ->
  exists l, r = ip ++ l /\ Forall byte l /\ (l = [] \/ len r <= 4) /\ (addr = joinr l \/ (l <> [] /\ addr = 46 :: joinr l)).
Proof.
  induction fuel as [|fuel IH]; intros addr ip r H; [discriminate|]. cbn [ipv4_net_loop] in H.
  destruct (Z.eqb_spec (len addr) 0) as [E0|Hne].
  { injection H as <-. exists []. rewrite app_nil_r. split; [reflexivity|]. split; [constructor|]. split; [left; reflexivity|].
    left. destruct addr; [reflexivity|rewrite len_cons in E0; pose proof (len_nonneg addr); lia]. }
  destruct (last_index_dot_decomp addr) as [[Hi Hnd]|(p & lab & Haddr & Hlab & Hi)]; rewrite Hi in H.
  - (* a single label *)
    change (-1 + 1) with 0 in H. change (slice_from addr 0) with (slice_from ([] ++ addr) (len (@nil Z))) in H.
    rewrite slice_from_app in H. cbn [bind] in H.
    destruct (parse_uint8 addr) as [v|] eqn:Ep; [|discriminate].
    destruct addr as [|c0 t0]; [discriminate|].
    change (idx (c0 :: t0) 0) with (idx ([] ++ c0 :: t0) (len (@nil Z))) in H. rewrite idx_app_head in H. cbn [bind] in H.
    rewrite Z.sub_0_r in H. destruct ((c0 =? 48) && (1 <? len (c0 :: t0))) eqn:Elz; [discriminate|].
    destruct (4 <=? len ip) eqn:E4; [discriminate|]. apply Z.leb_gt in E4. cbn [Z.eqb] in H. injection H as <-.
    destruct (parse_uint8_inv _ v Ep Elz) as [Hit Hb]. exists [v]. split; [reflexivity|]. split; [constructor; [exact Hb|constructor]|].
    split; [right; rewrite len_app; change (len [v]) with 1; lia|]. left. exact Hit.
  - subst addr. replace (p ++ 46 :: lab) with ((p ++ [46]) ++ lab) in H at 1 by (rewrite <- app_assoc; reflexivity).
    replace (len p + 1) with (len (p ++ [46])) in H by (rewrite len_app; reflexivity).
    rewrite slice_from_app in H. cbn [bind] in H. destruct (parse_uint8 lab) as [v|] eqn:Ep; [|discriminate].
    destruct lab as [|c0 t0]; [discriminate|].
    replace (p ++ 46 :: c0 :: t0) with ((p ++ [46]) ++ c0 :: t0) in H at 1 by (rewrite <- app_assoc; reflexivity).
    rewrite idx_app_head in H. cbn [bind] in H.
    replace (len (p ++ 46 :: c0 :: t0) - len (p ++ [46])) with (len (c0 :: t0)) in H
      by (rewrite !len_app, !len_cons; change (len (@nil Z)) with 0; lia).
    destruct ((c0 =? 48) && (1 <? len (c0 :: t0))) eqn:Elz; [discriminate|].
    destruct (4 <=? len ip) eqn:E4; [discriminate|]. apply Z.leb_gt in E4.
    destruct (Z.eqb_spec (len (p ++ [46])) 0) as [E|_]; [rewrite len_app in E; change (len [46]) with 1 in E; pose proof (len_nonneg p); lia|].
    replace (len (p ++ [46]) - 1) with (len p) in H by (rewrite len_app; change (len [46]) with 1; lia).
    rewrite slice_to_app in H. cbn [bind] in H.
    destruct (parse_uint8_inv _ v Ep Elz) as [Hit Hb]. rewrite Hit.
    destruct (IH p (ip ++ [v]) r H) as (l' & Hr & Hbl & Hlen & Hp).
    exists (v :: l'). split; [rewrite Hr, <- app_assoc; reflexivity|]. split; [constructor; assumption|].
    split.
    { right. destruct Hlen as [->|Hlen]; [|exact Hlen]. rewrite Hr, app_nil_r, len_app. change (len [v]) with 1. lia. }
    destruct l' as [|y l'].
    + destruct Hp as [->|[Hc _]]; [|contradiction]. right. split; [discriminate|reflexivity].
    + destruct Hp as [->|[_ ->]].
      * left. reflexivity.
      * right. split; [discriminate|]. rewrite joinr_cons. reflexivity.
Qed.

(* ================= IPv6: the nibble loop ================= *)

Definition nibble (n : Z) : Prop := 0 <= n < 16.
Definition hpair (n : Z) : gostring := [hexdigit n; 46].

Lemma len_hpairs hs : len (flat_map hpair hs) = 2 * len hs.
Proof. unfold len. rewrite (flat_map_length_const hpair 2) by reflexivity. lia. Qed.

Lemma ipv6_net_loop_fwd : forall hs fuel acc tail, Forall nibble hs -> (length hs < fuel)%nat -> len acc + len hs <= 32 ->
  ipv6_net_loop fuel (flat_map hpair hs ++ tail) (2 * len hs - 2) acc = Ret (Ok (acc ++ rev hs)).
Proof.
  induction hs as [|h hs IH] using rev_ind; intros fuel acc tail Hn Hf Hlen.
  - destruct fuel; [cbn [length] in Hf; lia|]. cbn [ipv6_net_loop]. rewrite app_nil_r. reflexivity.
  - apply Forall_app in Hn as [Hhs Hh]. inversion Hh as [|? ? Hh' _]; subst. unfold nibble in Hh'.
    rewrite app_length in Hf. cbn [length] in Hf. destruct fuel as [|fuel]; [lia|].
    rewrite len_app in Hlen |- *. change (len [h]) with 1 in *. pose proof (len_nonneg hs). pose proof (len_nonneg acc).
    assert (Estr : flat_map hpair (hs ++ [h]) ++ tail = flat_map hpair hs ++ hexdigit h :: 46 :: tail).
    { rewrite flat_map_app. cbn [flat_map]. rewrite app_nil_r, <- app_assoc. reflexivity. }
    rewrite Estr.
    assert (I1 : idx (flat_map hpair hs ++ hexdigit h :: 46 :: tail) (2 * (len hs + 1) - 2 + 1) = Ret 46).
    { replace (flat_map hpair hs ++ hexdigit h :: 46 :: tail) with ((flat_map hpair hs ++ [hexdigit h]) ++ 46 :: tail)
        by (rewrite <- app_assoc; reflexivity).
      replace (2 * (len hs + 1) - 2 + 1) with (len (flat_map hpair hs ++ [hexdigit h])) by (rewrite len_app, len_hpairs; change (len [hexdigit h]) with 1; lia).
      apply idx_app_head. }
    assert (I0 : idx (flat_map hpair hs ++ hexdigit h :: 46 :: tail) (2 * (len hs + 1) - 2) = Ret (hexdigit h)).
    { replace (2 * (len hs + 1) - 2) with (len (flat_map hpair hs)) by (rewrite len_hpairs; lia). apply idx_app_head. }
    cbn [ipv6_net_loop]. destruct (Z.ltb_spec (2 * (len hs + 1) - 2) 0); [lia|].
    rewrite I1. cbn [bind]. change (negb (46 =? 46)) with false. cbv iota. rewrite I0. cbn [bind].
    rewrite from_hex_of_hexdigit by lia. destruct (Z.eqb_spec h 255); [lia|]. destruct (Z.leb_spec 32 (len acc)); [lia|].
    replace (2 * (len hs + 1) - 2 - 2) with (2 * len hs - 2) by lia.
    rewrite IH; [|exact Hhs|lia|rewrite len_app; change (len [h]) with 1; lia].
    rewrite rev_app_distr. cbn [rev app]. rewrite <- app_assoc. reflexivity.
Qed.

Lemma firstn_snoc {A} (d : A) : forall n s, (n < length s)%nat -> firstn (S n) s = firstn n s ++ [nth n s d].
Proof.
  induction n as [|n IH]; intros [|x s] H; cbn [length] in H; try lia; [reflexivity|].
  cbn [firstn nth app]. rewrite <- IH by lia. reflexivity.
Qed.

Lemma ipv6_net_loop_inv arpa : lower_bytes arpa -> forall m fuel acc r,
  ipv6_net_loop fuel arpa (2 * Z.of_nat m - 2) acc = Ret (Ok r) ->
  exists hs, r = acc ++ rev hs /\ Forall nibble hs /\ (hs = [] \/ len r <= 32) /\ length hs = m /\
             firstn (2 * m) arpa = flat_map hpair hs.
Proof.
  intros Hlow. induction m as [|m IH]; intros fuel acc r H; (destruct fuel as [|fuel]; [discriminate|]); cbn [ipv6_net_loop] in H.
  - change (2 * Z.of_nat 0 - 2 <? 0) with true in H. injection H as <-. exists []. rewrite app_nil_r.
    repeat split; try constructor. reflexivity.
  - destruct (Z.ltb_spec (2 * Z.of_nat (S m) - 2) 0); [lia|].
    destruct (idx arpa (2 * Z.of_nat (S m) - 2 + 1)) as [d| |] eqn:Ed; try discriminate. cbn [bind] in H.
    destruct (negb (d =? 46)) eqn:Edd; [discriminate|]. apply negb_false_iff, Z.eqb_eq in Edd. subst d.
    destruct (idx arpa (2 * Z.of_nat (S m) - 2)) as [c| |] eqn:Ec; try discriminate. cbn [bind] in H.
    destruct (gen_fromHexByte c =? 255) eqn:Ef; [discriminate|]. apply Z.eqb_neq in Ef.
    destruct (32 <=? len acc) eqn:E32; [discriminate|]. apply Z.leb_gt in E32.
    replace (2 * Z.of_nat (S m) - 2 - 2) with (2 * Z.of_nat m - 2) in H by lia.
    destruct (IH _ _ _ H) as (hs & Hr & Hn & Hlen & Hl & Hf).
    apply idx_inv in Ed as [Rd Nd]. apply idx_inv in Ec as [Rc Nc].
    replace (Z.to_nat (2 * Z.of_nat (S m) - 2 + 1)) with (S (2 * m)) in Nd by lia.
    replace (Z.to_nat (2 * Z.of_nat (S m) - 2)) with (2 * m)%nat in Nc by lia.
    assert (Hin : In c arpa) by (rewrite Nc; apply nth_In; unfold len in *; lia).
    destruct (Hlow c Hin) as [Bc Lc]. destruct (hexdigit_of_from_hex c Bc Ef) as [Hh Hg]. rewrite Lc in Hh.
    exists (hs ++ [gen_fromHexByte c]). split; [rewrite Hr, rev_app_distr, <- app_assoc; reflexivity|].
    split; [apply Forall_app; split; [exact Hn|constructor; [exact Hg|constructor]]|].
    split.
    { right. destruct Hlen as [->|Hlen]; [|exact Hlen]. rewrite Hr. cbn [rev]. rewrite app_nil_r, len_app. change (len [gen_fromHexByte c]) with 1. lia. }
    split; [rewrite app_length, Hl; cbn [length]; lia|].
    replace (2 * S m)%nat with (S (S (2 * m))) by lia.
    rewrite (firstn_snoc 0) by (unfold len in *; lia). rewrite (firstn_snoc 0) by (unfold len in *; lia).
    rewrite Hf, flat_map_app. cbn [flat_map]. rewrite app_nil_r, <- app_assoc. unfold hpair at 3. rewrite Hh, <- Nc, <- Nd. reflexivity.
Qed.

(* ================= canonical names are valid domain names ================= *)

Lemma split_canon (lab : Z -> gostring) rest : forall l, (forall b, In b l -> Forall (fun c => c <> dot) (lab b)) ->
  split_on dot (flat_map (fun b => lab b ++ [dot]) l ++ rest) = map lab l ++ split_on dot rest.
Proof.
  induction l as [|b l IH]; intros H; [reflexivity|]. cbn [flat_map map app].
  rewrite <- !app_assoc. cbn [app]. rewrite split_label by (apply H; left; reflexivity).
  rewrite IH by (intros b' Hb'; apply H; right; exact Hb'). reflexivity.
Qed.

Lemma len_flat_labels (lab : Z -> gostring) k : forall l, (forall b, In b l -> 1 <= len (lab b) <= k) ->
  len l * 2 <= len (flat_map (fun b => lab b ++ [dot]) l) <= len l * (k + 1).
Proof.
  induction l as [|b l IH]; intros H; [cbn; lia|]. cbn [flat_map]. rewrite !len_app, len_cons.
  change (len [dot]) with 1. specialize (IH (fun b' Hb' => H b' (or_intror Hb'))). specialize (H b (or_introl eq_refl)). nia.
Qed.

Lemma name_ok_canon (lab : Z -> gostring) l r1 r2 rest : 
  (forall b, In b l -> Forall (fun c => c <> dot) (lab b) /\ 1 <= len (lab b) <= 3) ->
  len l <= 32 -> split_on dot rest = [r1; r2] -> 1 <= len rest <= 20 ->
  domlabelb r1 = true -> hostlabelb r2 = true -> has_nondigit r2 = true ->
  name_okb domlabelb (flat_map (fun b => lab b ++ [dot]) l ++ rest) = true.
Proof.
  intros Hl Hlen Hrest Hrl Hr1 Hr2 Hnd. unfold name_okb.
  rewrite split_canon by (intros b Hb; apply Hl; exact Hb). rewrite Hrest.
  rewrite removelast_two, last_or_two, Hr2, Hnd, forallb_app. cbn [forallb]. rewrite Hr1.
  assert (Hlabs : forallb domlabelb (map lab l) = true).
  { apply forallb_forall. intros x Hx. apply in_map_iff in Hx as (b & <- & Hb). destruct (Hl b Hb) as [_ Hb3].
    unfold domlabelb. apply andb_true_iff. split; apply Z.leb_le; lia. }
  rewrite Hlabs. cbn [andb].
  pose proof (len_flat_labels lab 3 l (fun b Hb => proj2 (Hl b Hb))) as Hfl. pose proof (len_nonneg l).
  rewrite len_app. repeat rewrite andb_true_r. apply andb_true_iff. split; apply Z.leb_le; lia.
Qed.

Lemma canon4_valid_gen os : Forall byte os -> len os <= 4 -> name_okb domlabelb (canon4 os) = true.
Proof.
  intros Hb Hl. unfold canon4. apply (name_ok_canon itoa (rev os) [105; 110; 45; 97; 100; 100; 114] [97; 114; 112; 97]); try reflexivity.
  - intros b Hin. apply in_rev in Hin. rewrite Forall_forall in Hb. specialize (Hb b Hin). split; [apply itoa_nodot; exact Hb|apply itoa_len_pos; exact Hb].
  - unfold len. rewrite rev_length. fold (len os). lia.
  - cbn. lia.
Qed.

Definition canon6n (ns : list Z) : gostring := flat_map hpair (rev ns) ++ suffix6_nodot.

Lemma canon6n_valid ns : Forall nibble ns -> len ns <= 32 -> name_okb domlabelb (canon6n ns) = true.
Proof.
  intros Hn Hl. unfold canon6n.
  change (flat_map hpair (rev ns)) with (flat_map (fun b => [hexdigit b] ++ [dot]) (rev ns)).
  apply (name_ok_canon (fun b => [hexdigit b]) (rev ns) [105; 112; 54] [97; 114; 112; 97]); try reflexivity.
  - intros b Hin. apply in_rev in Hin. rewrite Forall_forall in Hn. specialize (Hn b Hin). unfold nibble in Hn.
    split; [constructor; [apply hexdigit_nodot; lia|constructor]|cbn; lia].
  - unfold len. rewrite rev_length. fold (len ns). lia.
  - cbn. lia.
Qed.

(* ================= IPv4 prefixes: completeness ================= *)

Lemma canon4_joinr os : os <> [] -> canon4 os = joinr os ++ suffix4.
Proof.
  intros Hne. unfold canon4. change suffix4 with ([46] ++ suffix4_nodot). rewrite app_assoc. f_equal.
  induction os as [|x t IH]; [contradiction|]. cbn [rev]. rewrite flat_map_app. cbn [flat_map]. rewrite app_nil_r.
  destruct t as [|y t]; [reflexivity|]. rewrite IH by discriminate. rewrite joinr_cons, <- !app_assoc. reflexivity.
Qed.

Lemma count_c_none c s : Forall (fun x => x <> c) s -> count_c c s = 0.
Proof. induction 1 as [|x s Hx _ IH]; [reflexivity|]. cbn [count_c]. apply Z.eqb_neq in Hx. rewrite Hx, IH. reflexivity. Qed.

Lemma count_dots_joinr os : Forall byte os -> os <> [] -> count_dots (joinr os) = len os - 1.
Proof.
  intros Hb Hne. rewrite count_dots_count. induction os as [|x t IH]; [contradiction|]. inversion Hb as [|? ? Hx Ht]; subst.
  destruct t as [|y t].
  - cbn [joinr]. rewrite count_c_none by (apply itoa_nodot; exact Hx). reflexivity.
  - rewrite joinr_cons, count_c_app. cbn [count_c]. rewrite Z.eqb_refl, IH by (assumption || discriminate).
    rewrite count_c_none by (apply itoa_nodot; exact Hx). rewrite !len_cons. lia.
Qed.

Lemma joinr_len_ge os : Forall byte os -> len os <= len (joinr os).
Proof.
  induction 1 as [|x t Hx Ht IH]; [cbn; lia|]. pose proof (itoa_len_pos x Hx). destruct t as [|y t].
  - cbn [joinr]. rewrite len_cons. change (len (@nil Z)) with 0. lia.
  - rewrite joinr_cons, len_app, !len_cons in *. lia.
Qed.

Lemma pad_full n l : len l = n -> pad_to n l = l.
Proof. intros <-. unfold pad_to. rewrite Z.sub_diag. apply app_nil_r. Qed.

Lemma subnet_v4_canon os : Forall byte os -> len os <= 4 ->
  subnet_from_reversed_v4 (canon4 os) = Ret (Ok (pad_to 4 os, len os * 8)).
Proof.
  intros Hb Hl. destruct os as [|o os']; [reflexivity|]. set (os := o :: os') in *.
  assert (Hne : os <> []) by discriminate. rewrite canon4_joinr by exact Hne.
  unfold subnet_from_reversed_v4.
  assert (L4 : len suffix4 = 13) by reflexivity. pose proof (joinr_len_pos os Hne Hb) as Hp.
  replace (len (joinr os ++ suffix4) - len suffix4 + 1) with (len (joinr os ++ [46])) by (rewrite !len_app; change (len [46]) with 1; lia).
  change suffix4 with ([46] ++ suffix4_nodot). rewrite app_assoc, slice_to_app. cbn [bind].
  destruct (Z.eqb_spec (len (joinr os ++ [46])) 0) as [E|_]; [rewrite len_app in E; change (len [46]) with 1 in E; lia|].
  rewrite has_suffix_app. cbn [negb]. 
  replace (len (joinr os ++ [46]) - 1) with (len (joinr os)) by (rewrite len_app; change (len [46]) with 1; lia).
  rewrite slice_to_app. cbn [bind]. rewrite count_dots_joinr by assumption.
  pose proof (len_nonneg os') as Hos'. assert (Hlo : len os = len os' + 1) by (unfold os; rewrite len_cons; lia).
  destruct (Z.ltb_spec 3 (len os - 1)); [lia|]. destruct (Z.eqb_spec (len os - 1) 3) as [E3|N3].
  - (* four octets: netip.ParseAddr on the dotted quad *)
    unfold os in *. destruct os' as [|b [|c [|d [|e t]]]]; unfold len in E3; cbn [length] in E3; try lia.
    inversion Hb as [|? ? Ha Hb1]; subst. inversion Hb1 as [|? ? Hb' Hb2]; subst.
    inversion Hb2 as [|? ? Hc Hb3]; subst. inversion Hb3 as [|? ? Hd _]; subst.
    replace (joinr [o; b; c; d]) with (dotted4 d c b o)
      by (unfold dotted4; cbn [joinr]; repeat (rewrite <- app_assoc; cbn [app]); reflexivity). unfold ipv4_from_reversed. rewrite parse_addr_dotted by assumption.
    reflexivity.
  - unfold ipv4_net_from_reversed. pose proof (joinr_len_ge os Hb) as Hge.
    rewrite (ipv4_net_loop_joinr os) ; [|exact Hb|exact Hne|unfold len in Hge; lia|change (len (@nil Z)) with 0; lia].
    reflexivity.
Qed.

(* ================= IPv6 prefixes: completeness ================= *)

Definition unpack (bs : list Z) : list Z := flat_map (fun b => [b / 16; b mod 16]) bs.

Lemma pairs_ind {A} (P : list A -> Prop) : P [] -> (forall h, P [h]) -> (forall h l t, P t -> P (h :: l :: t)) -> forall ns, P ns.
Proof.
  intros H0 H1 H2. fix IH 1. intros [|h [|l t]]; [exact H0|apply H1|]. apply H2. apply IH.
Qed.

Lemma unpack_pack : forall ns, Forall nibble ns -> Nat.even (length ns) = true -> unpack (pack_nibbles ns) = ns.
Proof.
  induction ns as [| h | h l t IH] using pairs_ind; intros Hn He; [reflexivity|discriminate|].
  inversion Hn as [|? ? Hh Hn1]; subst. inversion Hn1 as [|? ? Hl Ht]; subst. unfold nibble in *.
  cbn [pack_nibbles unpack flat_map app]. fold (unpack (pack_nibbles t)). rewrite IH by assumption.
  f_equal; [lia|f_equal; lia].
Qed.

Lemma pack_unpack : forall bs, Forall byte bs -> pack_nibbles (unpack bs) = bs.
Proof.
  induction 1 as [|b t Hb _ IH]; [reflexivity|]. unfold byte in Hb. cbn [unpack flat_map app pack_nibbles].
  fold (unpack t). rewrite IH. f_equal. lia.
Qed.

Lemma pack_bytes : forall ns, Forall nibble ns -> Forall byte (pack_nibbles ns) /\ 2 * len (pack_nibbles ns) = len ns + Z.of_nat (Nat.b2n (Nat.odd (length ns))).
Proof.
  induction ns as [| h | h l t IH] using pairs_ind; intros Hn.
  - split; [constructor|reflexivity].
  - inversion Hn as [|? ? Hh _]; subst. unfold nibble in Hh. split; [constructor; [unfold byte; lia|constructor]|reflexivity].
  - inversion Hn as [|? ? Hh Hn1]; subst. inversion Hn1 as [|? ? Hl Ht]; subst. unfold nibble in *.
    destruct (IH Ht) as [Hb Hlen]. cbn [pack_nibbles]. split; [constructor; [unfold byte; lia|exact Hb]|].
    rewrite !len_cons. cbn [length]. change (Nat.odd (S (S (length t)))) with (Nat.odd (length t)). lia.
Qed.

Lemma unpack_nibbles bs : Forall byte bs -> Forall nibble (unpack bs) /\ len (unpack bs) = 2 * len bs.
Proof.
  induction 1 as [|b t Hb _ [IH1 IH2]]; [split; [constructor|reflexivity]|]. unfold byte in Hb.
  cbn [unpack flat_map app]. fold (unpack t). split; [repeat (constructor; [unfold nibble; lia|]); exact IH1|].
  rewrite !len_cons, IH2. lia.
Qed.

Lemma chunks_of_unpack : forall bs, flat_map chunk6 (rev bs) = flat_map hpair (rev (unpack bs)).
Proof.
  induction bs as [|b t IH]; [reflexivity|]. cbn [unpack flat_map app rev]. fold (unpack t).
  rewrite !flat_map_app, IH. cbn [flat_map]. rewrite !app_nil_r, <- !app_assoc. reflexivity.
Qed.

Lemma canon6_canon6n bs : canon6 bs = canon6n (unpack bs).
Proof. rewrite canon6_eq. unfold canon6n. rewrite chunks_of_unpack. reflexivity. Qed.

Lemma no_suffix4_in_ip6 x : has_suffix suffix4_nodot (x ++ suffix6_nodot) = false.
Proof. unfold has_suffix. rewrite rev_app_distr. reflexivity. Qed.

Lemma subnet_v6_canon ns : Forall nibble ns -> len ns <= 32 ->
  subnet_from_reversed_v6 (canon6n ns) = Ret (Ok (pad_to 16 (pack_nibbles ns), len ns * 4)).
Proof.
  intros Hn Hl. unfold subnet_from_reversed_v6.
  assert (Hlen : len (canon6n ns) = 2 * len ns + 8).
  { unfold canon6n. rewrite len_app, len_hpairs. unfold len at 1. rewrite rev_length. reflexivity. }
  rewrite Hlen. change c_arpaV6MaxLen with 72. pose proof (len_nonneg ns) as Hnn.
  destruct (Z.eqb_spec (2 * len ns + 8) 72) as [E|N].
  - (* 32 nibbles: the full-address walk *)
    assert (L32 : length ns = 32%nat) by (unfold len in E; lia).
    assert (Hev : Nat.even (length ns) = true) by (rewrite L32; reflexivity).
    destruct (pack_bytes ns Hn) as [Hpb Hpl]. rewrite L32 in Hpl. change (Z.of_nat (Nat.b2n (Nat.odd 32))) with 0 in Hpl.
    assert (L16 : length (pack_nibbles ns) = 16%nat) by (unfold len in *; lia).
    rewrite <- (unpack_pack ns Hn Hev) at 1. rewrite <- canon6_canon6n.
    unfold ipv6_from_reversed. rewrite canon6_eq.
    replace 16%nat with (length (rev (pack_nibbles ns))) at 1 by (rewrite rev_length; exact L16).
    change (flat_map chunk6 (rev (pack_nibbles ns)) ++ suffix6_nodot) with ([] ++ flat_map chunk6 (rev (pack_nibbles ns)) ++ suffix6_nodot).
    rewrite (ipv6_loop_chunks suffix6_nodot (rev (pack_nibbles ns)) [] 0 []) by (try reflexivity; apply Forall_rev; exact Hpb).
    cbn [bind]. rewrite rev_involutive, app_nil_r. rewrite pad_full by (unfold len; lia). do 3 f_equal. unfold len. lia.
  - destruct (Z.ltb_spec 72 (2 * len ns + 8)); [lia|]. unfold ipv6_net_from_reversed. rewrite Hlen.
    change (len suffix6) with 9. replace (2 * len ns + 8 - 9 + 1 - 2) with ((len ns - 1) * 2) by lia.
    rewrite Z.rem_mul by lia. cbn [Z.eqb negb]. unfold canon6n at 2.
    replace ((len ns - 1) * 2) with (2 * len (rev ns) - 2) by (unfold len; rewrite rev_length; lia).
    rewrite ipv6_net_loop_fwd.
    + cbn [bind app]. rewrite rev_involutive. reflexivity.
    + apply Forall_rev. exact Hn.
    + unfold canon6n. rewrite app_length, rev_length. pose proof (flat_map_length_const hpair 2 (rev ns) ltac:(reflexivity)) as H0. rewrite rev_length in H0. clear -H0. lia.
    + rewrite len_nil. unfold len. rewrite rev_length. fold (len ns). lia.
Qed.

(* ================= PrefixFromReversedAddr: completeness ================= *)

Theorem prefix4_complete s os : Forall byte os -> len os <= 4 -> to_lower_ascii (trim_dot s) = canon4 os ->
  prefix_from_reversed_addr s (Some (trim_dot s)) = Ret (Ok (pad_to 4 os, len os * 8)).
Proof.
  intros Hb Hl Hs. unfold prefix_from_reversed_addr.
  rewrite validate_arpa_valid by (rewrite Hs; apply canon4_valid_gen; assumption).
  rewrite Hs. unfold canon4 at 1. rewrite has_suffix_app. rewrite subnet_v4_canon by assumption. reflexivity.
Qed.

Theorem prefix6_complete s ns : Forall nibble ns -> len ns <= 32 -> to_lower_ascii (trim_dot s) = canon6n ns ->
  prefix_from_reversed_addr s (Some (trim_dot s)) = Ret (Ok (pad_to 16 (pack_nibbles ns), len ns * 4)).
Proof.
  intros Hn Hl Hs. unfold prefix_from_reversed_addr.
  rewrite validate_arpa_valid by (rewrite Hs; apply canon6n_valid; assumption).
  rewrite Hs. unfold canon6n at 1. rewrite no_suffix4_in_ip6. unfold canon6n at 1. rewrite has_suffix_app.
  rewrite subnet_v6_canon by assumption. reflexivity.
Qed.

(* ================= PrefixFromReversedAddr: soundness ================= *)

Lemma parse_addr_P4_inv x b : parse_addr x = Some (P4 b) ->
  exists p q r t, b = [p; q; r; t] /\ byte p /\ byte q /\ byte r /\ byte t /\ x = dotted4 p q r t.
Proof.
  intros Ep. unfold parse_addr in Ep. destruct (first_special x =? 46); [|destruct (first_special x =? 58); [|discriminate]].
  - destruct (parse_ipv4 x) as [b'|] eqn:E4; [|discriminate]. injection Ep as <-.
    destruct (parse_ipv4_inv x b' E4) as (p & q & r & t & -> & Hp & Hq & Hr & Ht & Hxx).
    exists p, q, r, t. repeat (split; [assumption || reflexivity|]). exact Hxx.
  - unfold parse_ipv6 in Ep.
    repeat (match type of Ep with context [match ?p with _ => _ end] => destruct p; try discriminate end).
Qed.

Definition is_prefix4 (arpa : gostring) (ip : list Z) (bits : Z) : Prop :=
  exists os, Forall byte os /\ len os <= 4 /\ arpa = canon4 os /\ ip = pad_to 4 os /\ bits = len os * 8.

Definition is_prefix6 (arpa : gostring) (ip : list Z) (bits : Z) : Prop :=
  exists ns, Forall nibble ns /\ len ns <= 32 /\ arpa = canon6n ns /\ ip = pad_to 16 (pack_nibbles ns) /\ bits = len ns * 4.

Lemma subnet_v4_inv x ip bits : nth 0 (x ++ suffix4_nodot) 0 <> 46 ->
  subnet_from_reversed_v4 (x ++ suffix4_nodot) = Ret (Ok (ip, bits)) -> is_prefix4 (x ++ suffix4_nodot) ip bits.
Proof.
  intros Hnd H. unfold subnet_from_reversed_v4 in H.
  replace (len (x ++ suffix4_nodot) - len suffix4 + 1) with (len x) in H by (rewrite len_app; change (len suffix4_nodot) with 12; change (len suffix4) with 13; lia).
  rewrite slice_to_app in H. cbn [bind] in H. destruct (Z.eqb_spec (len x) 0) as [E0|N0].
  - destruct x; [|rewrite len_cons in E0; pose proof (len_nonneg x); lia]. cbn in H. injection H as <- <-.
    exists []. repeat split; [constructor|cbn; lia].
  - destruct (has_suffix [46] x) eqn:Hs; [|discriminate]. cbn [negb] in H.
    destruct (has_suffix_inv _ _ Hs) as (y & ->).
    replace (len (y ++ [46]) - 1) with (len y) in H by (rewrite len_app; change (len [46]) with 1; lia).
    rewrite slice_to_app in H. cbn [bind] in H.
    destruct (3 <? count_dots y) eqn:E3; [discriminate|].
    assert (Harpa : (y ++ [46]) ++ suffix4_nodot = y ++ suffix4) by (rewrite <- app_assoc; reflexivity).
    destruct (count_dots y =? 3) eqn:Ed.
    + unfold ipv4_from_reversed in H. destruct (parse_addr y) as [[b|b z]|] eqn:Ep; try discriminate. injection H as <- <-.
      destruct (parse_addr_P4_inv y b Ep) as (p & q & r & t & -> & Hp & Hq & Hr & Ht & Hy).
      exists [t; r; q; p]. split; [repeat (constructor; [assumption|]); constructor|]. split; [cbn; lia|].
      split; [rewrite canon4_shape, Harpa, Hy; reflexivity|]. split; reflexivity.
    + unfold ipv4_net_from_reversed in H.
      destruct (ipv4_net_loop (S (length y)) y []) as [[r|e]| |] eqn:El; cbn [bind] in H; try discriminate. injection H as <- <-.
      destruct (ipv4_net_loop_inv _ _ _ _ El) as (l & Hr & Hb & Hlen & Hy). cbn [app] in Hr. subst r.
      destruct Hy as [->|[_ ->]]; [|exfalso; apply Hnd; reflexivity].
      destruct l as [|o l']; [exfalso; apply Hnd; reflexivity|].
      destruct Hlen as [Hc|Hlen]; [discriminate|].
      exists (o :: l'). split; [exact Hb|]. split; [exact Hlen|]. split; [|split; reflexivity].
      rewrite canon4_joinr by discriminate. exact Harpa.
Qed.

Lemma firstn_app_exact {A} (x y : list A) : firstn (length x) (x ++ y) = x.
Proof. rewrite firstn_app, Nat.sub_diag, firstn_all. cbn [firstn]. apply app_nil_r. Qed.

Lemma subnet_v6_inv x ip bits : lower_bytes (x ++ suffix6_nodot) ->
  subnet_from_reversed_v6 (x ++ suffix6_nodot) = Ret (Ok (ip, bits)) -> is_prefix6 (x ++ suffix6_nodot) ip bits.
Proof.
  intros Hlow H. unfold subnet_from_reversed_v6 in H. set (arpa := x ++ suffix6_nodot) in *.
  assert (Hlen : len arpa = len x + 8) by (unfold arpa; rewrite len_app; reflexivity).
  pose proof (len_nonneg x) as Hx0. change c_arpaV6MaxLen with 72 in H.
  destruct (Z.eqb_spec (len arpa) 72) as [E72|N72].
  - destruct (ipv6_from_reversed arpa) as [[b|e]| |] eqn:E6; cbn [bind] in H; try discriminate. injection H as <- <-.
    unfold ipv6_from_reversed in E6.
    destruct (ipv6_loop_inv arpa Hlow 16 0 [] b ltac:(lia) E6) as (l & Hl & Hb & Hr & Hf).
    rewrite app_nil_r in Hr. cbn [Z.mul Z.to_nat skipn] in Hf.
    assert (Hlr : l = rev b) by (rewrite Hr, rev_involutive; reflexivity).
    assert (Hbb : Forall byte b) by (rewrite Hr; apply Forall_rev; exact Hb).
    assert (Hx : x = flat_map chunk6 (rev b)).
    { rewrite <- Hlr, <- Hf. unfold arpa. replace (4 * 16)%nat with (length x) by (unfold len in *; lia). symmetry. apply firstn_app_exact. }
    destruct (unpack_nibbles b Hbb) as [Hun Hul].
    assert (L16 : len b = 16) by (rewrite Hr; unfold len; rewrite rev_length; lia).
    exists (unpack b). split; [exact Hun|]. split; [lia|]. split; [|split].
    + rewrite <- canon6_canon6n, canon6_eq. unfold arpa. rewrite Hx. reflexivity.
    + rewrite pack_unpack by exact Hbb. symmetry. apply pad_full. exact L16.
    + lia.
  - destruct (72 <? len arpa) eqn:Egt; [discriminate|]. unfold ipv6_net_from_reversed in H.
    change (len suffix6) with 9 in H. replace (len arpa - 9 + 1 - 2) with (len x - 2) in H by lia.
    destruct (Z.rem (len x - 2) 2 =? 0) eqn:Erem; [|discriminate]. cbn [negb] in H. apply Z.eqb_eq in Erem.
    assert (Hm : exists m : nat, len x = 2 * Z.of_nat m).
    { exists (Z.to_nat (len x / 2)). pose proof (Z.quot_rem' (len x - 2) 2) as Hq. rewrite Erem in Hq.
      assert (len x = 2 * (Z.quot (len x - 2) 2 + 1)) by lia. lia. }
    destruct Hm as (m & Hm). replace (len x - 2) with (2 * Z.of_nat m - 2) in H by lia.
    destruct (ipv6_net_loop (S (length arpa)) arpa (2 * Z.of_nat m - 2) []) as [[r|e]| |] eqn:El; cbn [bind] in H; try discriminate.
    injection H as <- <-.
    destruct (ipv6_net_loop_inv arpa Hlow m _ _ _ El) as (hs & Hr & Hn & Hl32 & Hlm & Hf). cbn [app] in Hr.
    assert (Hx : x = flat_map hpair hs).
    { rewrite <- Hf. unfold arpa. replace (2 * m)%nat with (length x) by (unfold len in *; lia). symmetry. apply firstn_app_exact. }
    exists r. split; [rewrite Hr; apply Forall_rev; exact Hn|]. split.
    { destruct Hl32 as [->|Hl32]; [rewrite Hr; cbn; lia|exact Hl32]. }
    split; [|split; reflexivity]. unfold canon6n, arpa. rewrite Hr, rev_involutive, Hx. reflexivity.
Qed.

Lemma lower_byte_dot c : to_lower_ascii_byte c = 46 -> c = 46.
Proof.
  unfold to_lower_ascii_byte, is_upper. destruct ((65 <=? c) && (c <=? 90)) eqn:E; [|auto].
  apply andb_true_iff in E as [E1 E2]. apply Z.leb_le in E1, E2. lia.
Qed.

Theorem prefix_sound s a ip bits : Forall byte s -> nth 0 (trim_dot s) 0 <> 46 ->
  prefix_from_reversed_addr s a = Ret (Ok (ip, bits)) ->
  is_prefix4 (to_lower_ascii (trim_dot s)) ip bits \/ is_prefix6 (to_lower_ascii (trim_dot s)) ip bits.
Proof.
  intros Hs Hnd H. unfold prefix_from_reversed_addr in H. apply validate_arpa_inv in H.
  set (arpa := to_lower_ascii (trim_dot s)) in *.
  assert (Hlow : lower_bytes arpa) by (apply lower_bytes_lower, trim_dot_bytes; exact Hs).
  assert (Hnd' : nth 0 arpa 0 <> 46).
  { unfold arpa. rewrite nth_to_lower. intros E. apply Hnd. apply lower_byte_dot. exact E. }
  destruct (has_suffix suffix4_nodot arpa) eqn:S4.
  - left. destruct (has_suffix_inv _ _ S4) as (x & Hx). rewrite Hx in *.
    destruct (subnet_from_reversed_v4 (x ++ suffix4_nodot)) as [[[ip' bits']|e]| |] eqn:E; cbn [bind wrap_addr] in H; try discriminate.
    injection H as <- <-. apply subnet_v4_inv; assumption.
  - destruct (has_suffix suffix6_nodot arpa) eqn:S6; [|discriminate].
    right. destruct (has_suffix_inv _ _ S6) as (x & Hx). rewrite Hx in *.
    destruct (subnet_from_reversed_v6 (x ++ suffix6_nodot)) as [[[ip' bits']|e]| |] eqn:E; cbn [bind wrap_addr] in H; try discriminate.
    injection H as <- <-. apply subnet_v6_inv; assumption.
Qed.

Lemma validate_arpa_ok_inv {A} n (k : M (res A)) v : validate_arpa (Some n) k = Ret (Ok v) -> name_okb domlabelb n = true.
Proof.
  unfold validate_arpa. destruct (validate_name_spec _ _ decides_domain (Some n)) as (r & Hr & Hiff & _).
  fold (validate_domain_name (Some n)) in Hr. rewrite Hr. cbn [bind]. destruct r as [e|].
  - destruct (replace_kind e); cbn [bind]; discriminate.
  - intros _. destruct (proj1 Hiff eq_refl) as (n' & Hn' & Hok). injection Hn' as <-. exact Hok.
Qed.

(* the specification of PrefixFromReversedAddr when ToASCII returns the name unchanged *)
Theorem prefix_spec s ip bits : Forall byte s ->
  prefix_from_reversed_addr s (Some (trim_dot s)) = Ret (Ok (ip, bits)) <->
  is_prefix4 (to_lower_ascii (trim_dot s)) ip bits \/ is_prefix6 (to_lower_ascii (trim_dot s)) ip bits.
Proof.
  intros Hs. split.
  - intros H. apply (prefix_sound s (Some (trim_dot s))); [exact Hs| |exact H].
    apply name_ok_no_leading_dot. unfold prefix_from_reversed_addr in H. apply validate_arpa_ok_inv in H. exact H.
  - intros [(os & Hb & Hl & Ha & -> & ->)|(ns & Hn & Hl & Ha & -> & ->)].
    + apply prefix4_complete; assumption.
    + apply prefix6_complete; assumption.
Qed.
