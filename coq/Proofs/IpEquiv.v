(* Proofs/IpEquiv.v — IsValidIPString / IsValidIPPortString accept exactly what the
   netip model of ParseAddr / ParseAddrPort accepts (C02). *)
From Verif Require Import Base.GoPrim Base.Strings Base.ByteFm Proofs.PrefixBits Gen.Consts Gen.BytePreds Std.Netip Std.Net
  Model.Addr Model.Ip Model.Reversed Proofs.AddrProofs Proofs.BufioProofs Proofs.IpProofs Proofs.ReversedBasics Proofs.ReversedTotal
  Proofs.ReversedRoundtrip Proofs.ReversedLanguage Proofs.ReversedPrefix Proofs.ReversedExtract.

Ltac Zify.zify_post_hook ::= Z.div_mod_to_equations.

(* ================= IPv4 ================= *)

Lemma split_dotted4 a b c d : byte a -> byte b -> byte c -> byte d ->
  split_on dot (dotted4 a b c d) = [itoa a; itoa b; itoa c; itoa d].
Proof.
  intros Ha Hb Hc Hd. unfold dotted4.
  rewrite split_label by (apply itoa_nodot; exact Ha). rewrite split_label by (apply itoa_nodot; exact Hb).
  rewrite split_label by (apply itoa_nodot; exact Hc). rewrite split_on_sepfree by (apply itoa_nodot; exact Hd). reflexivity.
Qed.

Lemma valid_ipv4_iff s : is_valid_ipv4_string s = true <->
  exists a b c d, byte a /\ byte b /\ byte c /\ byte d /\ s = dotted4 a b c d.
Proof.
  unfold is_valid_ipv4_string. split.
  - intros H. apply andb_true_iff in H as [Hl Hf]. apply Z.eqb_eq in Hl.
    pose proof (split_join dot s) as Hj.
    destruct (split_on dot s) as [|l1 [|l2 [|l3 [|l4 [|l5 r]]]]]; cbn [length] in Hl; try lia.
    cbn [forallb] in Hf. repeat (apply andb_true_iff in Hf as [? Hf]).
    destruct (is_ipv4_label_inv l1 ltac:(assumption)) as (a & Ha & ->). destruct (is_ipv4_label_inv l2 ltac:(assumption)) as (b & Hb & ->).
    destruct (is_ipv4_label_inv l3 ltac:(assumption)) as (c & Hc & ->). destruct (is_ipv4_label_inv l4 ltac:(assumption)) as (d & Hd & ->).
    exists a, b, c, d. repeat (split; [assumption|]). rewrite <- Hj. reflexivity.
  - intros (a & b & c & d & Ha & Hb & Hc & Hd & ->). rewrite split_dotted4 by assumption. cbn [length forallb].
    rewrite !itoa_label by assumption. reflexivity.
Qed.

Lemma parse_ipv4_iff s : parse_ipv4 s <> None <->
  exists a b c d, byte a /\ byte b /\ byte c /\ byte d /\ s = dotted4 a b c d.
Proof.
  split.
  - destruct (parse_ipv4 s) as [r|] eqn:E; [|contradiction]. intros _.
    destruct (parse_ipv4_inv s r E) as (a & b & c & d & _ & Ha & Hb & Hc & Hd & Hs). exists a, b, c, d. repeat (split; [assumption|]). exact Hs.
  - intros (a & b & c & d & Ha & Hb & Hc & Hd & ->). rewrite parse_ipv4_dotted by assumption. discriminate.
Qed.

Theorem ipv4_equiv s : is_valid_ipv4_string s = true <-> parse_ipv4 s <> None.
Proof. rewrite valid_ipv4_iff, parse_ipv4_iff. reflexivity. Qed.

(* ================= IPv6: one field ================= *)

Definition is_some {A} (o : option A) : bool := match o with Some _ => true | None => false end.

Lemma hex_spec c : (gen_fromHexByte c =? 255) = negb (is_some (hexval c)).
Proof. rewrite from_hex_byte_spec. destruct (hexval c); reflexivity. Qed.

Lemma hexval_range c v : hexval c = Some v -> 0 <= v <= 15.
Proof.
  unfold hexval, is_digit. destruct ((48 <=? c) && (c <=? 57)) eqn:E1.
  - intros H. injection H as <-. apply andb_true_iff in E1 as [A B]. apply Z.leb_le in A, B. lia.
  - destruct ((97 <=? c) && (c <=? 102)) eqn:E2.
    + intros H. injection H as <-. apply andb_true_iff in E2 as [A B]. apply Z.leb_le in A, B. lia.
    + destruct ((65 <=? c) && (c <=? 70)) eqn:E3; [|discriminate].
      intros H. injection H as <-. apply andb_true_iff in E3 as [A B]. apply Z.leb_le in A, B. lia.
Qed.

Definition pow16 (n : nat) : Z := Z.pow 16 (Z.of_nat n).

(* countIPv6FieldRunes and netip's hex-digit loop see the same field *)
Lemma scan_count : forall s (n : nat) acc, (n <= 4)%nat -> 0 <= acc < pow16 n ->
  match scan_hex s (Z.of_nat n) acc with
  | None => count_field_runes s (Z.of_nat n) = 0
  | Some (off, acc', rest) =>
      count_field_runes s (Z.of_nat n) = off /\ Z.of_nat n <= off <= 4 /\ rest = skipn (Z.to_nat (off - Z.of_nat n)) s /\
      len s = off - Z.of_nat n + len rest /\
      match rest with [] => True | c :: _ => hexval c = None end
  end.
Proof.
  induction s as [|c t IH]; intros n acc Hn Hacc; cbn [scan_hex count_field_runes].
  - replace (Z.to_nat (Z.of_nat n - Z.of_nat n)) with 0%nat by lia. cbn. repeat split; lia.
  - rewrite hex_spec. destruct (hexval c) as [v|] eqn:Ev; cbn [is_some negb].
    + destruct (Z.ltb_spec 3 (Z.of_nat n)) as [H3|H3]; [reflexivity|].
      pose proof (hexval_range c v Ev) as Hv.
      assert (Hb : 0 <= acc * 16 + v < pow16 (S n)).
      { unfold pow16 in *. rewrite Nat2Z.inj_succ, Z.pow_succ_r by lia. lia. }
      assert (Hle : pow16 (S n) <= 65536).
      { unfold pow16. destruct n as [|[|[|[|n]]]]; try lia; cbn; lia. }
      destruct (Z.ltb_spec 65535 (acc * 16 + v)); [lia|].
      specialize (IH (S n) (acc * 16 + v) ltac:(lia) Hb). rewrite Nat2Z.inj_succ in IH. unfold Z.succ in IH.
      destruct (scan_hex t (Z.of_nat n + 1) (acc * 16 + v)) as [[[off acc'] rest]|]; [|exact IH].
      destruct IH as (Hc & Hr & Hrest & Hl & Hh). split; [exact Hc|]. split; [lia|]. split.
      * replace (Z.to_nat (off - Z.of_nat n)) with (S (Z.to_nat (off - (Z.of_nat n + 1)))) by lia. exact Hrest.
      * split; [rewrite len_cons; lia|exact Hh].
    + replace (Z.to_nat (Z.of_nat n - Z.of_nat n)) with 0%nat by lia. cbn [skipn]. repeat split; try lia. exact Ev.
Qed.

Lemma scan_count0 s :
  match scan_hex s 0 0 with
  | None => count_ipv6_field_runes s = 0
  | Some (off, acc', rest) =>
      count_ipv6_field_runes s = off /\ 0 <= off <= 4 /\ rest = skipn (Z.to_nat off) s /\ len s = off + len rest /\
      match rest with [] => True | c :: _ => hexval c = None end
  end.
Proof.
  pose proof (scan_count s 0 0 ltac:(lia) ltac:(unfold pow16; cbn; lia)) as H. cbn [Z.of_nat] in H.
  unfold count_ipv6_field_runes. destruct (scan_hex s 0 0) as [[[off acc'] rest]|]; [|exact H].
  rewrite !Z.sub_0_r in H. exact H.
Qed.

(* ================= IPv6: the field loops simulate each other ================= *)

Definition final_ok (r : option (list Z * option Z * gostring)) : bool :=
  match r with
  | None => false
  | Some (ip, ell, rest) => (len rest =? 0) && Bool.eqb (is_some ell) (len ip <? 16)
  end.

Lemma len_zero_iff {A} (l : list A) : (len l =? 0) = match l with [] => true | _ => false end.
Proof. destruct l; [reflexivity|]. rewrite len_cons. pose proof (len_nonneg l). apply Z.eqb_neq. lia. Qed.

Lemma parse_ipv4_len s f4 : parse_ipv4 s = Some f4 -> len f4 = 4.
Proof. intros H. destruct (parse_ipv4_inv s f4 H) as (a & b & c & d & -> & _). reflexivity. Qed.

Lemma ipv4_equiv_bool s : is_valid_ipv4_string s = is_some (parse_ipv4 s).
Proof.
  pose proof (ipv4_equiv s) as H. destruct (is_valid_ipv4_string s), (parse_ipv4 s); cbn [is_some]; try reflexivity.
  - exfalso. apply (proj1 H eq_refl). reflexivity.
  - apply (proj2 H). discriminate.
Qed.

Lemma v6_sim : forall (k : nat) fuelv fuelp s ip ell, s <> [] -> (k <= 8)%nat -> len ip = 2 * (8 - Z.of_nat k) ->
  (k + 1 <= fuelv)%nat -> (k <= fuelp)%nat ->
  v6_fields fuelv s (8 - Z.of_nat k) (is_some ell) = final_ok (v6_loop fuelp s ip ell).
Proof.
  induction k as [|k IH]; intros fuelv fuelp s ip ell Hne Hk Hip Hfv Hfp.
  - destruct fuelv as [|fv]; [lia|]. cbn [v6_fields]. change c_maxIPv6FieldsNum with 8. cbn [Z.of_nat]. rewrite Z.sub_0_r.
    change (8 <? 8) with false. cbn [andb]. rewrite len_zero_iff. destruct s as [|c0 s0]; [contradiction|]. cbn [andb].
    destruct fuelp as [|fp]; [reflexivity|]. cbn [v6_loop]. destruct (Z.leb_spec 16 (len ip)); [|cbn in Hip; lia].
    cbn [final_ok]. rewrite len_zero_iff. reflexivity.
  - destruct fuelv as [|fv]; [lia|]. destruct fuelp as [|fp]; [lia|]. cbn [v6_fields v6_loop].
    change c_maxIPv6FieldsNum with 8. set (f := 8 - Z.of_nat (S k)) in *.
    assert (Hf : 0 <= f < 8) by (unfold f; lia).
    destruct (Z.ltb_spec f 8); [|lia]. rewrite (len_zero_iff s). destruct s as [|c0 s0] eqn:Es; [contradiction|]. rewrite <- Es in *. cbn [negb andb].
    destruct (Z.leb_spec 16 (len ip)); [lia|].
    unfold trim_valid_ipv6_field. change c_maxIPv6FieldsNum with 8.
    pose proof (scan_count0 s) as Hsc. destruct (scan_hex s 0 0) as [[[off acc] rest]|].
    2:{ rewrite Hsc. cbn [Z.eqb negb]. reflexivity. }
    destruct Hsc as (Hc & Hoff & Hrest & Hlen & Hhex). rewrite Hc.
    destruct (Z.eqb_spec off 0) as [->|Hoff0]; [reflexivity|].
    rewrite <- Hrest.
    destruct rest as [|c r1].
    + (* the field ends the string *)
      rewrite len_nil in Hlen. destruct (Z.eqb_spec off (len s)); [|lia]. cbn [negb]. rewrite len_nil. cbn [Z.eqb].
      cbn [final_ok]. rewrite len_nil. cbn [Z.eqb andb]. rewrite len_app. change (len [acc / 256; acc mod 256]) with 2.
      replace (len ip + 2 <? 16) with (f + 1 <? 8) by (destruct (Z.ltb_spec (f + 1) 8), (Z.ltb_spec (len ip + 2) 16); try reflexivity; lia).
      destruct (Bool.eqb (is_some ell) (f + 1 <? 8)); reflexivity.
    + rewrite len_cons in Hlen. pose proof (len_nonneg r1) as Hr1. destruct (Z.eqb_spec off (len s)); [lia|].
      destruct (Z.eq_dec c 46) as [->|Hc46].
      * (* an embedded dotted quad *)
        rewrite ipv4_equiv_bool. destruct ell as [e|]; cbn [is_some andb negb].
        -- destruct (Z.ltb_spec 16 (len ip + 4)) as [Hgt|Hle].
           { destruct (Z.ltb_spec f (8 - 2)); [lia|]. reflexivity. }
           destruct (parse_ipv4 s) as [f4|] eqn:E4; cbn [is_some].
           ++ rewrite (andb_true_r). cbn [final_ok]. rewrite len_nil. cbn [Z.eqb andb is_some]. rewrite len_app, (parse_ipv4_len s f4 E4).
              destruct (Z.ltb_spec f (8 - 2)), (Z.ltb_spec (len ip + 4) 16); cbn [negb Bool.eqb]; try reflexivity; lia.
           ++ rewrite andb_false_r. reflexivity.
        -- destruct (Z.eqb_spec (len ip) 12) as [E12|N12]; cbn [negb].
           ++ destruct (Z.ltb_spec 16 (len ip + 4)); [lia|]. destruct (Z.eqb_spec f (8 - 2)); [|lia]. cbn [andb].
              destruct (parse_ipv4 s) as [f4|] eqn:E4; cbn [is_some negb]; [|reflexivity].
              cbn [final_ok]. rewrite len_nil. cbn [Z.eqb andb is_some]. rewrite len_app, (parse_ipv4_len s f4 E4).
              destruct (Z.ltb_spec (len ip + 4) 16); [lia|]. reflexivity.
           ++ destruct (Z.eqb_spec f (8 - 2)); [lia|]. reflexivity.
      * (* a separator must follow *)
        assert (Hm : forall {X} (a b : X), match c :: r1 with 46 :: _ => a | _ => b end = b).
        { intros X a b. clear -Hc46. repeat (match goal with |- context [match ?p with _ => _ end] => destruct p end); try reflexivity; contradiction. }
        rewrite !Hm. cbn [negb]. rewrite (len_zero_iff (c :: r1)). unfold count_ipv6_sep_runes.
        destruct (Z.eqb_spec c 58) as [->|Hc58]; cbn [negb]; [|reflexivity].
        destruct r1 as [|c2 r2]; [reflexivity|].
        assert (Hip' : len (ip ++ [acc / 256; acc mod 256]) = 2 * (8 - Z.of_nat k)).
        { rewrite len_app. change (len [acc / 256; acc mod 256]) with 2. lia. }
        replace (f + 1) with (8 - Z.of_nat k) by (unfold f; lia).
        destruct (Z.eqb_spec c2 58) as [->|Hc2].
        -- destruct ell as [e|]; cbn [is_some]; [reflexivity|]. cbn [Z.eqb]. change (Z.to_nat 2) with 2%nat. cbn [skipn].
           destruct r2 as [|c3 r3].
           ++ (* the name ends with "::" *)
              destruct fv as [|fv]; [lia|]. cbn [v6_fields]. change c_maxIPv6FieldsNum with 8. rewrite len_nil. cbn [Z.eqb negb]. rewrite andb_false_r. cbn [andb].
              cbn [final_ok]. rewrite len_nil. cbn [Z.eqb andb is_some]. rewrite Hip'.
              destruct (Z.ltb_spec (8 - Z.of_nat k) 8), (Z.ltb_spec (2 * (8 - Z.of_nat k)) 16); try reflexivity; lia.
           ++ apply (IH fv fp (c3 :: r3) _ (Some (len (ip ++ [acc / 256; acc mod 256])))); try lia; try discriminate; try exact Hip'.
        -- cbn [Z.eqb]. change (Z.to_nat 1) with 1%nat. cbn [skipn].
           apply (IH fv fp (c2 :: r2) _ ell); try lia; try discriminate; try exact Hip'.
Qed.

(* ================= IPv6: whole strings without a zone ================= *)

Lemma match_cc {X} (s : gostring) (f : gostring -> X) (d : X) :
  match s with 58 :: 58 :: r => f r | _ => d end = if has_prefix [58; 58] s then f (skipn 2 s) else d.
Proof.
  destruct s as [|c1 [|c2 r]]; cbn [has_prefix skipn].
  - reflexivity.
  - destruct (Z.eqb_spec c1 58) as [->|H1]; cbn [andb]; [reflexivity|]. cbv beta iota.
    repeat (match goal with |- context [match ?p with _ => _ end] => is_var p; destruct p; cbv beta iota end); try reflexivity; contradiction.
  - destruct (Z.eqb_spec c1 58) as [->|H1]; cbn [andb].
    + destruct (Z.eqb_spec c2 58) as [->|H2]; [reflexivity|]. cbv beta iota.
      repeat (match goal with |- context [match ?p with _ => _ end] => is_var p; destruct p; cbv beta iota end); try reflexivity; contradiction.
    + cbv beta iota.
      repeat (match goal with |- context [match ?p with _ => _ end] => is_var p; destruct p; cbv beta iota end); try reflexivity; contradiction.
Qed.

(* acceptance by parseIPv6 of a zone-free text *)
Definition nozone_ok (s : gostring) : bool :=
  if has_prefix [58; 58] s then
    match skipn 2 s with [] => true | r => final_ok (v6_loop 9 r [] (Some 0)) end
  else final_ok (v6_loop 9 s [] None).

Lemma v6_equiv_nozone s : is_valid_ipv6_string s = nozone_ok s.
Proof.
  unfold is_valid_ipv6_string, nozone_ok. pose proof (match_cc s (fun r => v6_fields 10 r 0 true) (v6_fields 10 s 0 false)) as Hm. cbv beta in Hm. rewrite Hm. clear Hm.
  destruct (has_prefix [58; 58] s).
  - destruct (skipn 2 s) as [|c r] eqn:E; [reflexivity|].
    apply (v6_sim 8 10 9 (c :: r) [] (Some 0)); try lia; [discriminate|reflexivity].
  - destruct s as [|c r]; [reflexivity|].
    apply (v6_sim 8 10 9 (c :: r) [] None); try lia; [discriminate|reflexivity].
Qed.

(* the zone split of parseIPv6 / IsValidIPString *)
Definition zone_ok (input : gostring) : bool :=
  let i := index_byte input 37 in
  if i =? -1 then nozone_ok input
  else if len input =? i + 1 then false
  else nozone_ok (firstn (Z.to_nat i) input).

Lemma index_byte_from_range c : forall s off, let i := index_byte_from c s off in i = -1 \/ off <= i < off + len s.
Proof.
  induction s as [|x t IH]; intros off; cbn [index_byte_from]; [left; reflexivity|].
  rewrite len_cons. pose proof (len_nonneg t). destruct (x =? c); [right; lia|]. specialize (IH (off + 1)). cbn zeta in IH. destruct IH as [->|IH]; [left; reflexivity|right; lia].
Qed.

Lemma parse_ipv6_ok input : is_some (parse_ipv6 input) = zone_ok input.
Proof.
  unfold parse_ipv6, zone_ok. pose proof (index_byte_from_range 37 input 0) as Hi. cbn zeta in Hi. fold (index_byte input 37) in Hi.
  set (i := index_byte input 37) in *.
  assert (Hcore : forall s zone,
    is_some (let '(s1, ell0) := match s with 58 :: 58 :: r => (r, Some 0) | _ => (s, None) end in
             match ell0, s1 with
             | Some _, [] => Some (P6 (zeros 16) zone)
             | _, _ =>
                 match v6_loop 9 s1 [] ell0 with
                 | None => None
                 | Some (ip, ell, rest) =>
                     if negb (len rest =? 0) then None
                     else if len ip <? 16 then
                       match ell with
                       | None => None
                       | Some e => Some (P6 (firstn (Z.to_nat e) ip ++ zeros (16 - len ip) ++ skipn (Z.to_nat e) ip) zone)
                       end
                     else match ell with Some _ => None | None => Some (P6 ip zone) end
                 end
             end) = nozone_ok s).
  { intros s zone. unfold nozone_ok. pose proof (@match_cc (list Z * option Z)%type s (fun r => (r, Some 0)) (s, None)) as Hm. cbv beta in Hm.
    match goal with |- context [match ?m with (s1, ell0) => _ end] =>
      assert (Hx : m = if has_prefix [58; 58] s then (skipn 2 s, Some 0) else (s, None)) by (exact Hm); rewrite Hx; clear Hx Hm end.
    assert (Hfin : forall r, is_some (match r with
                 | None => None
                 | Some (ip, ell, rest) =>
                     if negb (len rest =? 0) then None
                     else if len ip <? 16 then
                       match ell with
                       | None => None
                       | Some e => Some (P6 (firstn (Z.to_nat e) ip ++ zeros (16 - len ip) ++ skipn (Z.to_nat e) ip) zone)
                       end
                     else match ell with Some _ => None | None => Some (P6 ip zone) end
                 end) = final_ok r).
    { intros [[[ip ell] rest]|]; [|reflexivity]. cbn [final_ok]. destruct (len rest =? 0); cbn [negb andb]; [|reflexivity].
      destruct (len ip <? 16), ell; reflexivity. }
    destruct (has_prefix [58; 58] s).
    - destruct (skipn 2 s) as [|c r]; [reflexivity|]. apply Hfin.
    - destruct s as [|c r]; apply Hfin. }
  destruct (Z.eqb_spec i (-1)) as [E|N]; cbn [negb andb].
  - apply Hcore.
  - destruct Hi as [Hi|Hi]; [contradiction|].
    assert (Hz : len (skipn (Z.to_nat (i + 1)) input) = len input - (i + 1)) by (unfold len; rewrite skipn_length; unfold len in Hi; lia).
    rewrite Hz. destruct (Z.eqb_spec (len input - (i + 1)) 0), (Z.eqb_spec (len input) (i + 1)); try lia; [reflexivity|]. apply Hcore.
Qed.

(* ================= the dispatch of IsValidIPString ================= *)

Definition nonspec (c : Z) : Prop := c <> 46 /\ c <> 58.

(* the ':' branch of IsValidIPString *)
Definition v6z (whole : gostring) : bool :=
  let i := index_byte whole 37 in
  if i =? -1 then is_valid_ipv6_string whole
  else if len whole =? i + 1 then false
  else is_valid_ipv6_string (firstn (Z.to_nat i) whole).

Lemma v6z_parse whole : v6z whole = is_some (parse_ipv6 whole).
Proof. rewrite parse_ipv6_ok. unfold v6z, zone_ok. rewrite !v6_equiv_nozone. reflexivity. Qed.

Lemma default_non46 {X} c (r : gostring) (a b : X) : c <> 46 -> match c :: r with 46 :: _ => a | _ => b end = b.
Proof.
  intros Hc. cbv beta iota.
  repeat (match goal with |- context [match ?p with _ => _ end] => is_var p; destruct p; cbv beta iota end); try reflexivity; contradiction.
Qed.

(* the first step of parseIPv6 on a text whose first field is followed by neither '.' nor ':' *)
Lemma v6_loop_first_field_gen (f : nat) s : s <> [] ->
  match scan_hex s 0 0 with
  | None => final_ok (v6_loop (S f) s [] None) = false
  | Some (off, acc, rest) =>
      match rest with
      | [] => final_ok (v6_loop (S f) s [] None) = false
      | c :: _ => nonspec c -> final_ok (v6_loop (S f) s [] None) = false
      end
  end.
Proof.
  intros Hne. cbn [v6_loop]. change (16 <=? len (@nil Z)) with false. cbv iota.
  destruct (scan_hex s 0 0) as [[[off acc] rest]|]; [|reflexivity].
  destruct (off =? 0); [destruct rest; [reflexivity|intros; reflexivity]|].
  destruct rest as [|c r1]; [reflexivity|]. intros [H46 H58]. rewrite (default_non46 c r1) by exact H46.
  apply Z.eqb_neq in H58. rewrite H58. reflexivity.
Qed.

Lemma v6_loop_first_field s : s <> [] ->
  match scan_hex s 0 0 with
  | None => final_ok (v6_loop 9 s [] None) = false
  | Some (off, acc, rest) =>
      match rest with
      | [] => final_ok (v6_loop 9 s [] None) = false
      | c :: _ => nonspec c -> final_ok (v6_loop 9 s [] None) = false
      end
  end.
Proof. exact (v6_loop_first_field_gen 8 s). Qed.

Lemma nocolon_v6_false x : Forall nonspec x -> nozone_ok x = false.
Proof.
  intros Hx. unfold nozone_ok.
  assert (Hp : has_prefix [58; 58] x = false).
  { destruct x as [|c t]; [reflexivity|]. inversion Hx as [|? ? [_ H58] _]; subst. cbn [has_prefix]. apply Z.eqb_neq in H58. rewrite Z.eqb_sym, H58. reflexivity. }
  rewrite Hp. destruct x as [|c0 t0] eqn:Ex; [reflexivity|]. rewrite <- Ex in *.
  assert (Hne : x <> []) by (rewrite Ex; discriminate).
  pose proof (v6_loop_first_field x Hne) as Hf. pose proof (scan_count0 x) as Hsc.
  destruct (scan_hex x 0 0) as [[[off acc] rest]|]; [|exact Hf].
  destruct rest as [|c r1]; [exact Hf|]. apply Hf.
  destruct Hsc as (_ & _ & Hrest & _). rewrite Forall_forall in Hx. apply Hx.
  assert (Hin : In c (skipn (Z.to_nat off) x)) by (rewrite <- Hrest; left; reflexivity).
  clear -Hin. revert Hin. generalize (Z.to_nat off). intros n. revert x. induction n as [|n IH]; intros [|y x] Hin; cbn [skipn] in Hin; try assumption; try contradiction.
  right. apply IH. exact Hin.
Qed.

(* an accepted IPv6 text has at most four bytes before its first colon *)
Lemma v6_first_colon pre r : Forall nonspec pre -> nozone_ok (pre ++ 58 :: r) = true -> len pre <= 4.
Proof.
  intros Hpre H. destruct pre as [|c0 p0] eqn:Epre; [cbn; lia|]. rewrite <- Epre in *.
  assert (Hc0 : c0 <> 58) by (rewrite Epre in Hpre; inversion Hpre as [|? ? [_ Hx] _]; exact Hx).
  unfold nozone_ok in H.
  assert (Hp : has_prefix [58; 58] (pre ++ 58 :: r) = false).
  { rewrite Epre. cbn [app has_prefix]. apply Z.eqb_neq in Hc0. rewrite Z.eqb_sym, Hc0. reflexivity. }
  rewrite Hp in H. set (s := pre ++ 58 :: r) in *.
  assert (Hne : s <> []) by (unfold s; rewrite Epre; discriminate).
  pose proof (v6_loop_first_field s Hne) as Hf. pose proof (scan_count0 s) as Hsc.
  destruct (scan_hex s 0 0) as [[[off acc] rest]|]; [|congruence].
  destruct Hsc as (_ & Hoff & Hrest & Hlen & _).
  destruct (Z.le_gt_cases (len pre) off) as [|Hlt]; [lia|exfalso].
  (* the field ended inside [pre]: it is followed by a byte that is neither '.' nor ':' *)
  assert (Hsk : skipn (Z.to_nat off) s = skipn (Z.to_nat off) pre ++ 58 :: r).
  { unfold s. rewrite skipn_app. replace (Z.to_nat off - length pre)%nat with 0%nat by (unfold len in Hlt; lia). reflexivity. }
  destruct (skipn (Z.to_nat off) pre) as [|c t] eqn:Esk.
  { apply (f_equal (@length Z)) in Esk. rewrite skipn_length in Esk. unfold len in Hlt. cbn in Esk. lia. }
  rewrite Hsk in Hrest. cbn [app] in Hrest. subst rest.
  assert (Hc : nonspec c).
  { rewrite Forall_forall in Hpre. apply Hpre. assert (Hin : In c (skipn (Z.to_nat off) pre)) by (rewrite Esk; left; reflexivity).
    clear -Hin. revert Hin. generalize (Z.to_nat off). intros n. revert pre. induction n as [|n IH]; intros [|y x] Hin; cbn [skipn] in Hin; try assumption; try contradiction.
    right. apply IH. exact Hin. }
  rewrite (Hf Hc) in H. discriminate.
Qed.

(* ---- strings.IndexByte ---- *)
Lemma index_byte_from_app c pre : forall t off, In c pre ->
  index_byte_from c (pre ++ t) off = index_byte_from c pre off /\ off <= index_byte_from c pre off < off + len pre.
Proof.
  induction pre as [|x pre IH]; intros t off Hin; [contradiction|]. cbn [app index_byte_from]. rewrite len_cons. pose proof (len_nonneg pre).
  destruct (Z.eqb_spec x c) as [->|Hx]; [split; [reflexivity|lia]|].
  destruct Hin as [E|Hin]; [contradiction|]. destruct (IH t (off + 1) Hin) as [E R]. split; [exact E|lia].
Qed.

Lemma index_byte_from_skip c pre : forall t off, ~ In c pre ->
  index_byte_from c (pre ++ t) off = index_byte_from c t (off + len pre).
Proof.
  induction pre as [|x pre IH]; intros t off Hin; cbn [app index_byte_from]; [rewrite len_nil; f_equal; lia|].
  destruct (Z.eqb_spec x c) as [->|Hx]; [exfalso; apply Hin; left; reflexivity|].
  rewrite IH by (intros H; apply Hin; right; exact H). rewrite len_cons. f_equal. lia.
Qed.

Lemma Forall_firstn {A} (P : A -> Prop) n : forall l, Forall P l -> Forall P (firstn n l).
Proof. induction n as [|n IH]; intros [|x l] H; cbn [firstn]; try constructor; inversion H; subst; [assumption|apply IH; assumption]. Qed.

(* with a zone: still at most four bytes before the first colon *)
Lemma v6z_first_colon pre r : Forall nonspec pre -> v6z (pre ++ 58 :: r) = true -> len pre <= 4.
Proof.
  intros Hpre H. unfold v6z in H. rewrite !v6_equiv_nozone in H. set (whole := pre ++ 58 :: r) in *.
  destruct (Z.eqb_spec (index_byte whole 37) (-1)) as [E|N]; [apply (v6_first_colon pre r Hpre H)|].
  destruct (len whole =? index_byte whole 37 + 1); [discriminate|].
  destruct (in_dec Z.eq_dec 37 pre) as [Hin|Hnin].
  - (* the zone starts inside [pre]: what is left has no colon *)
    destruct (index_byte_from_app 37 pre (58 :: r) 0 Hin) as [Ei Ri]. unfold index_byte, whole in H. rewrite Ei in H.
    rewrite firstn_app in H. replace (Z.to_nat (index_byte_from 37 pre 0) - length pre)%nat with 0%nat in H by (unfold len in Ri; lia).
    cbn [firstn] in H. rewrite app_nil_r in H. rewrite nocolon_v6_false in H by (apply Forall_firstn; exact Hpre). discriminate.
  - unfold index_byte, whole in H, N. rewrite (index_byte_from_skip 37 pre (58 :: r) 0 Hnin) in H, N. cbn [index_byte_from] in H, N.
    change (58 =? 37) with false in H, N. cbv iota in H, N.
    pose proof (index_byte_from_range 37 r (0 + len pre + 1)) as Hr. cbn zeta in Hr. destruct Hr as [Hr|Hr]; [contradiction|].
    set (i := index_byte_from 37 r (0 + len pre + 1)) in *.
    rewrite firstn_app in H. rewrite firstn_all2 in H by (unfold len in Hr; lia).
    replace (Z.to_nat i - length pre)%nat with (S (Z.to_nat i - length pre - 1)) in H by (unfold len in Hr; lia). cbn [firstn] in H.
    apply (v6_first_colon pre _ Hpre H).
Qed.

Lemma v4_first_dot pre r : Forall (fun c => c <> 46) pre -> is_valid_ipv4_string (pre ++ 46 :: r) = true -> len pre <= 3.
Proof.
  intros Hpre H. apply valid_ipv4_iff in H as (a & b & c & d & Ha & _ & _ & _ & E). unfold dotted4 in E.
  destruct (dotfree_prefix_eq _ _ _ _ Hpre (itoa_nodot a Ha) E) as [-> _]. pose proof (itoa_len_pos a Ha). lia.
Qed.

(* IsValidIPString without the bound on significant bytes *)
Fixpoint disp' (whole t : gostring) : bool :=
  match t with
  | [] => false
  | c :: t' => if c =? 46 then is_valid_ipv4_string whole else if c =? 58 then v6z whole else disp' whole t'
  end.

Lemma nonspec_snoc pre c : Forall nonspec pre -> c <> 46 -> c <> 58 -> Forall nonspec (pre ++ [c]).
Proof. intros H A B. apply Forall_app. split; [exact H|constructor; [split; assumption|constructor]]. Qed.

Lemma disp'_long : forall t pre, Forall nonspec pre -> 4 < len pre -> disp' (pre ++ t) t = false.
Proof.
  induction t as [|c t IH]; intros pre Hpre Hl; [reflexivity|]. cbn [disp'].
  destruct (Z.eqb_spec c 46) as [->|H46].
  - destruct (is_valid_ipv4_string (pre ++ 46 :: t)) eqn:E; [|reflexivity].
    apply v4_first_dot in E; [lia|]. eapply Forall_impl; [|exact Hpre]. intros x [Hx _]. exact Hx.
  - destruct (Z.eqb_spec c 58) as [->|H58].
    + destruct (v6z (pre ++ 58 :: t)) eqn:E; [|reflexivity]. apply v6z_first_colon in E; [lia|exact Hpre].
    + replace (pre ++ c :: t) with ((pre ++ [c]) ++ t) by (rewrite <- app_assoc; reflexivity).
      apply IH; [apply nonspec_snoc; assumption|rewrite len_app; change (len [c]) with 1; lia].
Qed.

Lemma dispatch_sig : forall t pre, Forall nonspec pre -> ip_dispatch (pre ++ t) t (len pre) = disp' (pre ++ t) t.
Proof.
  induction t as [|c t IH]; intros pre Hpre; [reflexivity|]. cbn [ip_dispatch disp']. change c_maxSignificant with 4.
  destruct (Z.ltb_spec 4 (len pre)) as [Hl|Hl].
  - symmetry. apply (disp'_long (c :: t) pre Hpre Hl).
  - destruct (Z.eqb_spec c 46) as [->|H46]; [reflexivity|]. destruct (Z.eqb_spec c 58) as [->|H58]; [reflexivity|].
    replace (pre ++ c :: t) with ((pre ++ [c]) ++ t) by (rewrite <- app_assoc; reflexivity).
    replace (len pre + 1) with (len (pre ++ [c])) by (rewrite len_app; reflexivity).
    apply IH. apply nonspec_snoc; assumption.
Qed.

(* ---- against netip.ParseAddr ---- *)
Definition plain (c : Z) : Prop := c <> 46 /\ c <> 58 /\ c <> 37.

Lemma first_special_skip pre t : Forall plain pre -> first_special (pre ++ t) = first_special t.
Proof.
  induction 1 as [|c pre (H46 & H58 & H37) _ IH]; [reflexivity|]. cbn [app first_special].
  apply Z.eqb_neq in H46, H58, H37. rewrite H46, H58, H37. exact IH.
Qed.

Lemma dotted4_chars a b c d : byte a -> byte b -> byte c -> byte d ->
  Forall (fun x => is_digit x = true \/ x = 46) (dotted4 a b c d).
Proof.
  intros Ha Hb Hc Hd. unfold dotted4.
  assert (Hi : forall v, byte v -> Forall (fun x => is_digit x = true \/ x = 46) (itoa v)).
  { intros v Hv. destruct (itoa_digits v Hv) as [H _]. eapply Forall_impl; [|exact H]. intros x Hx. left. exact Hx. }
  repeat (apply Forall_app; split; [apply Hi; assumption|]; constructor; [right; reflexivity|]). apply Hi. exact Hd.
Qed.

(* a '%' before the first '.' or ':' : nothing is accepted *)
Lemma disp'_pct : forall t pre, Forall nonspec pre -> In 37 pre -> disp' (pre ++ t) t = false.
Proof.
  induction t as [|c t IH]; intros pre Hpre Hin; [reflexivity|]. cbn [disp'].
  destruct (Z.eqb_spec c 46) as [->|H46].
  - destruct (is_valid_ipv4_string (pre ++ 46 :: t)) eqn:E; [|reflexivity]. exfalso.
    apply valid_ipv4_iff in E as (a & b & c & d & Ha & Hb & Hc & Hd & E).
    pose proof (dotted4_chars a b c d Ha Hb Hc Hd) as Hch. rewrite <- E in Hch. rewrite Forall_forall in Hch.
    destruct (Hch 37 ltac:(apply in_or_app; left; exact Hin)) as [H|H]; discriminate.
  - destruct (Z.eqb_spec c 58) as [->|H58].
    + unfold v6z. destruct (index_byte_from_app 37 pre (58 :: t) 0 Hin) as [Ei Ri]. unfold index_byte. rewrite Ei.
      destruct (Z.eqb_spec (index_byte_from 37 pre 0) (-1)); [lia|].
      destruct (len (pre ++ 58 :: t) =? index_byte_from 37 pre 0 + 1); [reflexivity|].
      rewrite v6_equiv_nozone, firstn_app. replace (Z.to_nat (index_byte_from 37 pre 0) - length pre)%nat with 0%nat by (unfold len in Ri; lia).
      cbn [firstn]. rewrite app_nil_r. apply nocolon_v6_false. apply Forall_firstn. exact Hpre.
    + replace (pre ++ c :: t) with ((pre ++ [c]) ++ t) by (rewrite <- app_assoc; reflexivity).
      apply IH; [apply nonspec_snoc; assumption|apply in_or_app; left; exact Hin].
Qed.

Lemma disp'_parse : forall t pre, Forall plain pre -> disp' (pre ++ t) t = is_some (parse_addr (pre ++ t)).
Proof.
  induction t as [|c t IH]; intros pre Hpre.
  - unfold parse_addr. rewrite first_special_skip by exact Hpre. reflexivity.
  - unfold parse_addr. rewrite first_special_skip by exact Hpre. cbn [disp' first_special].
    destruct (Z.eqb_spec c 46) as [->|H46].
    + cbn [orb]. rewrite Z.eqb_refl. rewrite ipv4_equiv_bool. destruct (parse_ipv4 (pre ++ 46 :: t)); reflexivity.
    + destruct (Z.eqb_spec c 58) as [->|H58].
      * cbn [orb]. change (58 =? 46) with false. cbv iota. rewrite Z.eqb_refl. apply v6z_parse.
      * destruct (Z.eqb_spec c 37) as [->|H37].
        -- cbn [orb]. change (37 =? 46) with false. change (37 =? 58) with false. cbv iota. cbn [is_some].
           replace (pre ++ 37 :: t) with ((pre ++ [37]) ++ t) by (rewrite <- app_assoc; reflexivity).
           apply disp'_pct; [|apply in_or_app; right; left; reflexivity].
           apply Forall_app. split; [eapply Forall_impl; [|exact Hpre]; intros x (A & B & _); split; assumption|].
           constructor; [split; discriminate|constructor].
        -- cbn [orb]. fold (parse_addr (pre ++ c :: t)).
           replace (pre ++ c :: t) with ((pre ++ [c]) ++ t) by (rewrite <- app_assoc; reflexivity).
           rewrite IH.
           ++ unfold parse_addr. rewrite (first_special_skip (pre ++ [c]) t); [reflexivity|].
              apply Forall_app. split; [exact Hpre|constructor; [repeat split; assumption|constructor]].
           ++ apply Forall_app. split; [exact Hpre|constructor; [repeat split; assumption|constructor]].
Qed.

(* IsValidIPString(s) iff netip.ParseAddr(s) succeeds *)
Theorem ip_string_equiv s : is_valid_ip_string s = is_some (parse_addr s).
Proof.
  unfold is_valid_ip_string. pose proof (dispatch_sig s [] ltac:(constructor)) as H. cbn [app] in H. change (len (@nil Z)) with 0 in H. rewrite H.
  apply (disp'_parse s []). constructor.
Qed.

(* ================= IsValidIPPortString against netip.ParseAddrPort ================= *)

Lemma last_idx_same c : forall s i best, last_idx_from c s i best = last_index_byte_from c s i best.
Proof. induction s as [|x t IH]; intros i best; cbn [last_idx_from last_index_byte_from]; [reflexivity|apply IH]. Qed.

Lemma first_special_in x : first_special x = 0 \/ (In (first_special x) x /\ (first_special x = 46 \/ first_special x = 58 \/ first_special x = 37)).
Proof.
  induction x as [|c t IH]; [left; reflexivity|]. cbn [first_special].
  destruct (Z.eqb_spec c 46) as [->|]; [right; split; [left; reflexivity|left; reflexivity]|].
  destruct (Z.eqb_spec c 58) as [->|]; [right; split; [left; reflexivity|right; left; reflexivity]|].
  destruct (Z.eqb_spec c 37) as [->|]; [right; split; [left; reflexivity|right; right; reflexivity]|].
  cbn [orb]. destruct IH as [E|[Hin Hv]]; [left; exact E|right; split; [right; exact Hin|exact Hv]].
Qed.

Lemma parse_addr_P4_nocolon x b : parse_addr x = Some (P4 b) -> ~ In 58 x /\ (exists c t, x = c :: t /\ is_digit c = true).
Proof.
  intros H. destruct (parse_addr_P4_inv x b H) as (p & q & r & t & _ & Hp & Hq & Hr & Ht & ->). split.
  - intros Hin. pose proof (dotted4_chars p q r t Hp Hq Hr Ht) as Hch. rewrite Forall_forall in Hch. destruct (Hch 58 Hin) as [E|E]; discriminate.
  - unfold dotted4. destruct (itoa_nonempty p Hp) as (c & tl & E & _). destruct (itoa_digits p Hp) as [Hd _]. rewrite E in *.
    exists c, (tl ++ 46 :: itoa q ++ 46 :: itoa r ++ 46 :: itoa t). split; [reflexivity|]. inversion Hd; assumption.
Qed.

Lemma parse_addr_P6_colon x b z : parse_addr x = Some (P6 b z) -> In 58 x.
Proof.
  unfold parse_addr. intros H. destruct (first_special_in x) as [E|[Hin _]].
  - rewrite E in H. discriminate.
  - destruct (first_special x =? 46); [destruct (parse_ipv4 x); discriminate|].
    destruct (Z.eqb_spec (first_special x) 58) as [E|]; [rewrite <- E; exact Hin|discriminate].
Qed.

Lemma contains_byte_in s c : contains_byte s c = true <-> In c s.
Proof.
  unfold contains_byte. rewrite existsb_exists. split.
  - intros (x & Hin & E). apply Z.eqb_eq in E. subst. exact Hin.
  - intros Hin. exists c. split; [exact Hin|apply Z.eqb_refl].
Qed.

Lemma default_non91 {X} c (r : gostring) (a b : X) : c <> 91 -> match c :: r with 91 :: _ => a | _ => b end = b.
Proof.
  intros Hc. cbv beta iota.
  repeat (match goal with |- context [match ?p with _ => _ end] => is_var p; destruct p; cbv beta iota end); try reflexivity; contradiction.
Qed.

Lemma is_uint16_bool port : port <> [] -> is_uint16 port = is_some (parse_uint16 port).
Proof.
  intros Hne. pose proof (c02_port port) as H. rewrite len_zero_iff in H. destruct port as [|c t]; [contradiction|]. cbn [negb andb] in H.
  destruct (is_uint16 (c :: t)), (parse_uint16 (c :: t)); cbn [is_some]; try reflexivity.
  - exfalso. apply (proj1 H eq_refl). reflexivity.
  - apply (proj2 H). discriminate.
Qed.

Lemma in_inner c ip : In c ip -> c <> hd 0 ip -> c <> last_or ip 0 -> In c (removelast (tl ip)).
Proof.
  intros Hin Hh Hl. destruct ip as [|h t]; [contradiction|]. cbn [hd tl] in *. destruct Hin as [E|Hin]; [congruence|].
  assert (Ht : t <> []) by (intros ->; contradiction).
  assert (Hlast : last_or (h :: t) 0 = last t 0).
  { clear -Ht. revert h. induction t as [|x t IH]; intros h; [contradiction|]. destruct t as [|y t]; [reflexivity|]. 
    change (last_or (h :: x :: y :: t) 0) with (last_or (x :: y :: t) 0). rewrite (IH ltac:(discriminate) x). reflexivity. }
  rewrite Hlast in Hl. rewrite (app_removelast_last 0 Ht) in Hin. apply in_app_or in Hin as [Hin|[E|[]]]; [exact Hin|congruence].
Qed.

Lemma removelast_in {A} (x : A) l : In x (removelast l) -> In x l.
Proof.
  induction l as [|y l IH]; [intros []|]. destruct l as [|z l]; [intros []|]. cbn [removelast]. intros [E|H]; [left; exact E|right; apply IH; exact H].
Qed.

Theorem ip_port_string_equiv s : is_valid_ip_port_string s = is_some (parse_addr_port s).
Proof.
  unfold is_valid_ip_port_string, parse_addr_port, last_index_byte. rewrite last_idx_same.
  set (i := last_index_byte_from 58 s 0 (-1)). destruct (i =? -1); [reflexivity|].
  set (ip := firstn (Z.to_nat i) s). set (port := skipn (Z.to_nat (i + 1)) s).
  rewrite (len_zero_iff ip), (len_zero_iff port).
  destruct ip as [|c0 ip0] eqn:Eip; [reflexivity|]. rewrite <- Eip. destruct port as [|p0 port0] eqn:Eport; [reflexivity|]. rewrite <- Eport. cbn [orb].
  assert (Hport : is_uint16 port = is_some (parse_uint16 port)) by (apply is_uint16_bool; rewrite Eport; discriminate).
  destruct (Z.eq_dec c0 91) as [E91|N91].
  - (* a bracketed host *)
    subst c0. assert (Hhd : hd 0 ip = 91) by (rewrite Eip; reflexivity). rewrite Hhd. change (negb (91 =? 91)) with false. cbn [orb].
    rewrite Eip at 3. cbv iota. rewrite <- Eip.
    destruct (contains_byte ip 58) eqn:Ecb.
    + apply contains_byte_in in Ecb.
      assert (Hl2 : (len ip <? 2) = false).
      { rewrite Eip in Ecb |- *. destruct Ecb as [E|Ecb]; [discriminate|]. destruct ip0; [contradiction|]. rewrite !len_cons. pose proof (len_nonneg ip0). apply Z.ltb_ge. lia. }
      rewrite Hl2. cbn [orb]. destruct (last_or ip 0 =? 93) eqn:El; cbn [negb]; [|reflexivity]. apply Z.eqb_eq in El.
      rewrite Hport. destruct (parse_uint16 port) as [pn|]; cbn [is_some negb]; [|reflexivity].
      rewrite ip_string_equiv.
      assert (Hinner : In 58 (removelast (tl ip))) by (apply in_inner; [exact Ecb|rewrite Hhd; discriminate|rewrite El; discriminate]).
      destruct (parse_addr (removelast (tl ip))) as [[b|b z]|] eqn:Ep; cbn [is_some]; try reflexivity.
      exfalso. apply (proj1 (parse_addr_P4_nocolon _ _ Ep)). exact Hinner.
    + (* brackets without a colon inside: neither accepts *)
      assert (Hnc : ~ In 58 ip) by (intros H; apply contains_byte_in in H; congruence).
      rewrite Hport. destruct (parse_uint16 port) as [pn|]; cbn [is_some negb]; [|destruct ((len ip <? 2) || negb (last_or ip 0 =? 93)); reflexivity].
      rewrite ip_string_equiv.
      assert (Hv : parse_addr ip = None).
      { destruct (parse_addr ip) as [[b|b z]|] eqn:Ep; [| |reflexivity].
        - destruct (proj2 (parse_addr_P4_nocolon _ _ Ep)) as (c & t & E & Hd). rewrite Eip in E. injection E as <- _. discriminate.
        - exfalso. apply Hnc. apply (parse_addr_P6_colon _ _ _ Ep). }
      rewrite Hv. cbn [is_some]. destruct ((len ip <? 2) || negb (last_or ip 0 =? 93)); [reflexivity|]. cbn [negb].
      destruct (parse_addr (removelast (tl ip))) as [[b|b z]|] eqn:Ep; cbn [is_some]; try reflexivity.
      exfalso. apply Hnc. apply parse_addr_P6_colon in Ep. apply removelast_in in Ep. rewrite Eip. right. rewrite Eip in Ep. exact Ep.
  - rewrite Eip at 4. rewrite (default_non91 c0 ip0) by exact N91. rewrite <- Eip. cbn [negb].
    assert (Hhd : hd 0 ip = c0) by (rewrite Eip; reflexivity). rewrite Hhd.
    destruct (Z.eqb_spec c0 91); [contradiction|]. cbn [negb orb].
    destruct (contains_byte ip 58) eqn:Ecb; cbn [negb].
    + apply contains_byte_in in Ecb. destruct (parse_uint16 port) as [pn|]; [|reflexivity].
      destruct (parse_addr ip) as [[b|b z]|] eqn:Ep; try reflexivity.
      exfalso. apply (proj1 (parse_addr_P4_nocolon _ _ Ep)). exact Ecb.
    + assert (Hnc : ~ In 58 ip) by (intros H; apply contains_byte_in in H; congruence).
      rewrite Hport. destruct (parse_uint16 port) as [pn|]; cbn [is_some negb]; [|reflexivity].
      rewrite ip_string_equiv. destruct (parse_addr ip) as [[b|b z]|] eqn:Ep; try reflexivity.
      exfalso. apply Hnc. apply (parse_addr_P6_colon _ _ _ Ep).
Qed.

Lemma is_some_iff {A} (b : bool) (o : option A) : b = is_some o -> (b = true <-> o <> None).
Proof. intros ->. destruct o; cbn [is_some]; split; try discriminate; try reflexivity. intros H; contradiction. Qed.

Theorem c02_ip_string s : is_valid_ip_string s = true <-> parse_addr s <> None.
Proof. apply is_some_iff, ip_string_equiv. Qed.

Theorem c02_ip_port_string s : is_valid_ip_port_string s = true <-> parse_addr_port s <> None.
Proof. apply is_some_iff, ip_port_string_equiv. Qed.

Theorem c02_ipv6_string s : is_valid_ipv6_string s = nozone_ok s.
Proof. exact (v6_equiv_nozone s). Qed.
