(* Proofs/RingProofs.v — RingBuffer model refines "the last min(k,n) values pushed
   since creation or the last Clear" (C11). *)
From Verif Require Import Base.GoPrim Model.Containers.
From Coq Require Import Arith PeanoNat.

(* ---- specification: the state is just the list of values pushed since the last Clear ---- *)

Definition ring_spec_step (n : nat) (w : list Z) (o : rop) : list Z * robs :=
  match o with
  | RPush e => (w ++ [e], RUnit)
  | RClear => ([], RUnit)
  | RCurrent => (w, RVal (if (Nat.leb n (length w)) && (Nat.ltb 0 n) then hd 0 (lastn n w) else 0))
  | RLen => (w, RVal (Z.of_nat (Nat.min (length w) n)))
  | RRange s => (w, RVals (fst (visit (fun x => negb (x =? s)) (lastn n w))))
  | RRevRange s => (w, RVals (fst (visit (fun x => negb (x =? s)) (rev (lastn n w)))))
  end.

Fixpoint ring_spec_run (n : nat) (w : list Z) (ops : list rop) : list robs :=
  match ops with
  | [] => []
  | o :: os => let '(w', ob) := ring_spec_step n w o in ob :: ring_spec_run n w' os
  end.

(* ---- list lemmas ---- *)

Lemma set_nth_split i e l :
  (i < length l)%nat -> set_nth i e l = firstn i l ++ e :: skipn (S i) l.
Proof.
  revert i; induction l as [|h t IH]; intros i Hi; simpl in Hi; [lia|].
  destruct i as [|i]; simpl; [reflexivity|]. f_equal. apply IH. lia.
Qed.

Lemma set_nth_length i e l : length (set_nth i e l) = length l.
Proof. revert i; induction l as [|h t IH]; intros [|i]; simpl; auto. Qed.

Lemma lastn_all n l : (length l <= n)%nat -> lastn n l = l.
Proof. intros H. unfold lastn. replace (length l - n)%nat with 0%nat by lia. reflexivity. Qed.

Lemma lastn_length n l : length (lastn n l) = Nat.min (length l) n.
Proof. unfold lastn. rewrite skipn_length. lia. Qed.

Lemma lastn_0 l : lastn 0 l = [].
Proof. unfold lastn. rewrite Nat.sub_0_r. apply skipn_all. Qed.

Lemma skipn_app_le {A} k (a b : list A) :
  (k <= length a)%nat -> skipn k (a ++ b) = skipn k a ++ b.
Proof.
  intros H. rewrite skipn_app. replace (k - length a)%nat with 0%nat by lia. reflexivity.
Qed.

(* pushing onto a window that is already full drops its oldest element *)
Lemma lastn_snoc_full n w e :
  (0 < n <= length w)%nat -> lastn n (w ++ [e]) = tl (lastn n w) ++ [e].
Proof.
  intros H. unfold lastn. rewrite app_length. simpl length.
  replace (length w + 1 - n)%nat with (S (length w - n)) by lia.
  rewrite skipn_app_le by lia.
  f_equal.
  remember (length w - n)%nat as k.
  assert (Hk : (k < length w)%nat) by lia.
  clear -Hk. revert k Hk. induction w as [|x w IH]; intros k Hk; simpl in Hk; [lia|].
  destruct k as [|k].
  - reflexivity.
  - change (skipn (S (S k)) (x :: w)) with (skipn (S k) w).
    change (skipn (S k) (x :: w)) with (skipn k w).
    apply IH. lia.
Qed.

Lemma visit_app f a b :
  visit f (a ++ b) =
  let '(v1, c) := visit f a in
  if c then (v1 ++ fst (visit f b), snd (visit f b)) else (v1, false).
Proof.
  induction a as [|x a IH]; simpl.
  - destruct (visit f b); reflexivity.
  - destruct (f x); [|reflexivity].
    rewrite IH. destruct (visit f a) as [v c]. destruct c; reflexivity.
Qed.

Lemma skipn_nonempty_hd (l : list Z) k :
  (k < length l)%nat -> skipn k l = nth k l 0 :: skipn (S k) l.
Proof.
  revert k; induction l as [|x l IH]; intros k Hk; simpl in Hk; [lia|].
  destruct k as [|k]; [reflexivity|].
  change (skipn (S k) (x :: l)) with (skipn k l).
  change (skipn (S (S k)) (x :: l)) with (skipn (S k) l).
  simpl nth. apply IH. lia.
Qed.

Lemma repeat_skipn_hd k n :
  (k < n)%nat -> forall l, skipn k l = repeat 0 (n - k) -> length l = n ->
  nth k l 0 = 0 /\ skipn (S k) l = repeat 0 (n - S k).
Proof.
  intros Hk l Hs Hl.
  rewrite (skipn_nonempty_hd l k) in Hs by lia.
  replace (n - k)%nat with (S (n - S k)) in Hs by lia. cbn [repeat] in Hs.
  injection Hs as H1 H2. split; assumption.
Qed.

(* ---- the invariant ---- *)

Definition ring_inv (n : nat) (rb : ring) (w : list Z) : Prop :=
  length (rb_buf rb) = n /\
  match n with
  | O => rb_cur rb = 0%nat /\ rb_full rb = false
  | S _ =>
      (rb_cur rb < n)%nat /\
      if rb_full rb
      then (n <= length w)%nat /\
           skipn (rb_cur rb) (rb_buf rb) ++ firstn (rb_cur rb) (rb_buf rb) = lastn n w
      else firstn (rb_cur rb) (rb_buf rb) = w /\
           skipn (rb_cur rb) (rb_buf rb) = repeat 0 (n - rb_cur rb)
  end.

Lemma ring_inv_new n : ring_inv n (ring_new n) [].
Proof.
  unfold ring_inv, ring_new. simpl. rewrite repeat_length. split; [reflexivity|].
  destruct n; [auto|]. split; [lia|]. simpl. split; reflexivity.
Qed.

Lemma ring_inv_clear n rb w : ring_inv n rb w -> ring_clear rb = ring_new n.
Proof. intros [Hl _]. unfold ring_clear, ring_new. rewrite Hl. reflexivity. Qed.

Lemma firstn_length_le' {A} (l : list A) k : (k <= length l)%nat -> length (firstn k l) = k.
Proof. intros. rewrite firstn_length. lia. Qed.

Lemma ring_inv_push n rb w e :
  ring_inv n rb w -> ring_inv n (ring_push rb e) (w ++ [e]).
Proof.
  intros [Hl Hn]. unfold ring_push.
  destruct (rb_buf rb) as [|b0 bt] eqn:Eb.
  - (* capacity 0 *)
    simpl in Hl. subst n. unfold ring_inv. rewrite Eb. simpl. auto.
  - assert (Hne : rb_buf rb <> []) by (rewrite Eb; discriminate).
    rewrite <- Eb in *. clear b0 bt Eb.
    destruct n as [|n']; [destruct (rb_buf rb); [congruence|discriminate]|].
    destruct Hn as [Hc Hn].
    set (n := S n') in *.
    set (cur := rb_cur rb) in *.
    set (buf := rb_buf rb) in *.
    assert (Hsn : set_nth cur e buf = firstn cur buf ++ e :: skipn (S cur) buf)
      by (apply set_nth_split; lia).
    unfold ring_inv. cbn [rb_buf rb_cur rb_full].
    rewrite set_nth_length. split; [exact Hl|].
    rewrite Hl. fold n.
    assert (Hf : length (firstn cur buf) = cur) by (apply firstn_length_le'; lia).
    destruct (Nat.eq_dec (cur + 1) n) as [Hwrap|Hnowrap].
    + (* wraps to 0: buffer becomes / stays full *)
      rewrite Hwrap, Nat.mod_same by lia. simpl Nat.eqb. cbn iota.
      split; [lia|].
      rewrite Hsn.
      assert (Hsk : skipn (S cur) buf = []) by (apply skipn_all2; lia).
      rewrite Hsk. simpl skipn. simpl firstn. rewrite app_nil_r.
      destruct (rb_full rb).
      * destruct Hn as [Hw Hc2].
        split; [rewrite app_length; simpl; lia|].
        rewrite lastn_snoc_full by lia. f_equal.
        rewrite <- Hc2.
        rewrite (skipn_nonempty_hd buf cur) by lia. rewrite Hsk. reflexivity.
      * destruct Hn as [Hw Hz]. rewrite Hw.
        assert (length w = cur) by (rewrite <- Hw; exact Hf).
        split; [rewrite app_length; simpl; lia|].
        rewrite lastn_all by (rewrite app_length; simpl; lia). reflexivity.
    + assert (Hlt : (cur + 1 < n)%nat) by lia.
      rewrite Nat.mod_small by lia.
      replace (Nat.eqb (cur + 1) 0) with false by (symmetry; apply Nat.eqb_neq; lia).
      split; [lia|].
      rewrite Hsn.
      assert (Hfi : firstn (cur + 1) (firstn cur buf ++ e :: skipn (S cur) buf) = firstn cur buf ++ [e]).
      { rewrite firstn_app, Hf. replace (cur + 1 - cur)%nat with 1%nat by lia.
        rewrite firstn_all2 by lia. reflexivity. }
      assert (Hsi : skipn (cur + 1) (firstn cur buf ++ e :: skipn (S cur) buf) = skipn (S cur) buf).
      { rewrite skipn_app, Hf. replace (cur + 1 - cur)%nat with 1%nat by lia.
        rewrite skipn_all2 by lia. reflexivity. }
      rewrite Hfi, Hsi.
      destruct (rb_full rb).
      * destruct Hn as [Hw Hc2].
        split; [rewrite app_length; simpl; lia|].
        rewrite lastn_snoc_full by lia. rewrite <- Hc2.
        rewrite (skipn_nonempty_hd buf cur) by lia. simpl tl.
        rewrite <- app_assoc. reflexivity.
      * destruct Hn as [Hw Hz]. rewrite Hw. split; [reflexivity|].
        destruct (repeat_skipn_hd cur n ltac:(lia) buf Hz Hl) as [_ Hz'].
        rewrite Hz'. f_equal. lia.
Qed.

(* ---- observers as functions of the retained window ---- *)

Lemma ring_contents_spec n rb w : ring_inv n rb w -> ring_contents rb = lastn n w.
Proof.
  intros [Hl Hn]. unfold ring_contents, ring_split.
  destruct (rb_buf rb) as [|b0 bt] eqn:Eb.
  - simpl in Hl. subst n. rewrite lastn_0. reflexivity.
  - rewrite <- Eb in *. destruct n as [|n']; [destruct (rb_buf rb); discriminate|].
    destruct Hn as [Hc Hn]. destruct (rb_full rb).
    + destruct Hn as [_ H]. exact H.
    + destruct Hn as [Hw Hz]. rewrite app_nil_r, Hw.
      symmetry. apply lastn_all.
      rewrite <- Hw, firstn_length. lia.
Qed.

Lemma ring_range_spec f rb :
  ring_range f rb = fst (visit f (ring_contents rb)).
Proof.
  unfold ring_range, ring_contents. destruct (ring_split rb) as [before after].
  rewrite visit_app. destruct (visit f before) as [v c]. destruct c; reflexivity.
Qed.

Lemma ring_rrange_spec f rb :
  ring_rrange f rb = fst (visit f (rev (ring_contents rb))).
Proof.
  unfold ring_rrange, ring_contents. destruct (ring_split rb) as [before after].
  rewrite rev_app_distr, visit_app. destruct (visit f (rev after)) as [v c]. destruct c; reflexivity.
Qed.

Lemma ring_len_spec n rb w : ring_inv n rb w -> ring_len rb = Nat.min (length w) n.
Proof.
  intros [Hl Hn]. unfold ring_len.
  destruct n as [|n'].
  - destruct Hn as [Hc Hf]. rewrite Hf, Hc. lia.
  - destruct Hn as [Hc Hn]. destruct (rb_full rb).
    + destruct Hn as [Hw _]. lia.
    + destruct Hn as [Hw _]. rewrite <- Hw, firstn_length. lia.
Qed.

Lemma ring_current_spec n rb w :
  ring_inv n rb w ->
  ring_current rb = if (Nat.leb n (length w)) && (Nat.ltb 0 n) then hd 0 (lastn n w) else 0.
Proof.
  intros [Hl Hn]. unfold ring_current.
  destruct n as [|n'].
  - rewrite andb_false_r. destruct (rb_buf rb); [|discriminate]. destruct (rb_cur rb); reflexivity.
  - destruct Hn as [Hc Hn]. set (n := S n') in *.
    replace (Nat.ltb 0 n) with true by (symmetry; apply Nat.ltb_lt; lia).
    rewrite andb_true_r.
    destruct (rb_full rb).
    + destruct Hn as [Hw Hcs].
      replace (Nat.leb n (length w)) with true by (symmetry; apply Nat.leb_le; lia).
      rewrite <- Hcs. rewrite (skipn_nonempty_hd (rb_buf rb) (rb_cur rb)) by lia. reflexivity.
    + destruct Hn as [Hw Hz].
      destruct (repeat_skipn_hd _ n Hc _ Hz Hl) as [H0 _]. rewrite H0.
      destruct (Nat.leb n (length w)) eqn:E; [|reflexivity].
      apply Nat.leb_le in E. rewrite <- Hw, firstn_length in E. lia.
Qed.

(* ---- refinement ---- *)

Lemma ring_refines n : forall ops rb w,
  ring_inv n rb w -> ring_run rb ops = ring_spec_run n w ops.
Proof.
  induction ops as [|o ops IH]; intros rb w Hinv; [reflexivity|].
  destruct o; simpl.
  - f_equal. apply IH. apply ring_inv_push. exact Hinv.
  - f_equal. apply IH. rewrite (ring_inv_clear n rb w Hinv). apply ring_inv_new.
  - rewrite (ring_current_spec n rb w Hinv). f_equal. apply IH. exact Hinv.
  - rewrite (ring_len_spec n rb w Hinv). f_equal. apply IH. exact Hinv.
  - rewrite ring_range_spec, (ring_contents_spec n rb w Hinv). f_equal. apply IH. exact Hinv.
  - rewrite ring_rrange_spec, (ring_contents_spec n rb w Hinv). f_equal. apply IH. exact Hinv.
Qed.

Lemma ring_refines_new n ops : ring_run (ring_new n) ops = ring_spec_run n [] ops.
Proof. apply ring_refines. apply ring_inv_new. Qed.

Lemma ring_after_inv n : forall ops rb w,
  ring_inv n rb w -> ring_inv n (ring_after rb ops) (pushed_since_clear w ops).
Proof.
  induction ops as [|o ops IH]; intros rb w Hinv; [exact Hinv|].
  destruct o; simpl; try (apply IH; exact Hinv).
  - apply IH. apply ring_inv_push. exact Hinv.
  - apply IH. rewrite (ring_inv_clear n rb w Hinv). apply ring_inv_new.
Qed.

(* a cleared buffer IS a new one (same model state, hence same behaviour for every continuation) *)
Lemma ring_clear_is_new n ops :
  ring_after (ring_new n) (ops ++ [RClear]) = ring_new n.
Proof.
  assert (H : forall ops rb, ring_after rb (ops ++ [RClear]) = ring_clear (ring_after rb ops)).
  { induction ops0 as [|o ops0 IH]; intros rb; simpl; [reflexivity|]. apply IH. }
  rewrite H.
  apply (ring_inv_clear n _ (pushed_since_clear [] ops)).
  apply ring_after_inv. apply ring_inv_new.
Qed.
