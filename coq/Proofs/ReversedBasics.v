(* Proofs/ReversedBasics.v — digit-level facts the ARPA codec rests on; finite
   sweeps (the domains are finite: bytes, nibbles) are proofs. *)
From Verif Require Import Base.GoPrim Base.Strings Base.ByteFm Gen.Consts Gen.BytePreds Std.Netip Std.Net
  Model.Addr Model.Ip Model.Reversed.

Definition nibbles16 : list Z := map Z.of_nat (seq 0 16).

Lemma in_nibbles16 n : 0 <= n < 16 -> In n nibbles16.
Proof. intros H. unfold nibbles16. apply in_map_iff. exists (Z.to_nat n). split; [lia|apply in_seq; lia]. Qed.

(* hex digit round trips *)
Lemma from_hex_of_hexdigit_sweep : forallb (fun n => gen_fromHexByte (hexdigit n) =? n) nibbles16 = true.
Proof. vm_compute. reflexivity. Qed.

Lemma from_hex_of_hexdigit n : 0 <= n < 16 -> gen_fromHexByte (hexdigit n) = n.
Proof.
  intros H. pose proof from_hex_of_hexdigit_sweep as S. rewrite forallb_forall in S.
  apply Z.eqb_eq. apply S. apply in_nibbles16. exact H.
Qed.

(* for every byte: if it is a hex digit, printing its value gives its lower-case form *)
Lemma hexdigit_of_from_hex_sweep :
  forallb (fun c => (gen_fromHexByte c =? 255) || (hexdigit (gen_fromHexByte c) =? to_lower_ascii_byte c)) bytes256 = true.
Proof. vm_compute. reflexivity. Qed.

Lemma hexdigit_of_from_hex c : 0 <= c < 256 -> gen_fromHexByte c <> 255 ->
  hexdigit (gen_fromHexByte c) = to_lower_ascii_byte c /\ 0 <= gen_fromHexByte c < 16.
Proof.
  intros Hc Hne. pose proof hexdigit_of_from_hex_sweep as S. rewrite forallb_forall in S.
  assert (Hin : In c bytes256).
  { unfold bytes256. apply in_map_iff. exists (Z.to_nat c). split; [lia|apply in_seq; lia]. }
  specialize (S c Hin). apply orb_true_iff in S as [S|S]; [apply Z.eqb_eq in S; contradiction|].
  apply Z.eqb_eq in S. split; [exact S|].
  assert (R : forallb (fun c => (gen_fromHexByte c =? 255) || ((0 <=? gen_fromHexByte c) && (gen_fromHexByte c <? 16))) bytes256 = true)
    by (vm_compute; reflexivity).
  rewrite forallb_forall in R. specialize (R c Hin). apply orb_true_iff in R as [R|R]; [apply Z.eqb_eq in R; contradiction|].
  apply andb_true_iff in R as [R1 R2]. apply Z.leb_le in R1. apply Z.ltb_lt in R2. lia.
Qed.

(* decimal octets: Itoa followed by the parsers used on the way back *)
Lemma itoa_uint8_sweep :
  forallb (fun v => match parse_uint8 (itoa v) with Some w => w =? v | None => false end) bytes256 = true.
Proof. vm_compute. reflexivity. Qed.

Lemma itoa_label_sweep : forallb (fun v => is_ipv4_label (itoa v)) bytes256 = true.
Proof. vm_compute. reflexivity. Qed.

Lemma itoa_no_leading_zero_sweep :
  forallb (fun v => negb ((hd 0 (itoa v) =? 48) && (1 <? len (itoa v)))) bytes256 = true.
Proof. vm_compute. reflexivity. Qed.

Lemma in_bytes256' v : 0 <= v < 256 -> In v bytes256.
Proof. intros H. unfold bytes256. apply in_map_iff. exists (Z.to_nat v). split; [lia|apply in_seq; lia]. Qed.

Lemma itoa_uint8 v : 0 <= v < 256 -> parse_uint8 (itoa v) = Some v.
Proof.
  intros H. pose proof itoa_uint8_sweep as S. rewrite forallb_forall in S. specialize (S v (in_bytes256' v H)).
  destruct (parse_uint8 (itoa v)) as [w|]; [|discriminate]. apply Z.eqb_eq in S. congruence.
Qed.

Lemma itoa_label v : 0 <= v < 256 -> is_ipv4_label (itoa v) = true.
Proof. intros H. pose proof itoa_label_sweep as S. rewrite forallb_forall in S. apply S. apply in_bytes256'. exact H. Qed.

(* the encoder, by cases (this IS the canonical PTR name of RFC 1035 3.5 / RFC 3596 2.5) *)
Definition canon4 (v : list Z) : gostring := flat_map (fun b => itoa b ++ [46]) (rev v) ++ suffix4_nodot.
Definition canon6 (v : list Z) : gostring :=
  flat_map (fun b => [hexdigit (b mod 16); 46; hexdigit (b / 16); 46]) (rev v) ++ suffix6_nodot.

Lemma encode_spec ip :
  ip_to_reversed_addr ip =
  match to4 ip with
  | Some v => Ok (canon4 v)
  | None => match to16 ip with
            | Some v => Ok (canon6 v)
            | None => Err (EAddr EPlainErr)
            end
  end.
Proof. reflexivity. Qed.

Lemma suffixes :
  suffix4_nodot = [105; 110; 45; 97; 100; 100; 114; 46; 97; 114; 112; 97] /\      (* "in-addr.arpa" *)
  suffix6_nodot = [105; 112; 54; 46; 97; 114; 112; 97] /\                          (* "ip6.arpa" *)
  c_arpaV6MaxLen = 72 /\ c_arpaV4MaxLen = 28.
Proof. repeat split; reflexivity. Qed.
