(* Proofs/ReversedLanguage.v — IPFromReversedAddr accepts nothing but the canonical
   PTR names (C04, the accepted-language direction): whatever it decodes to v,
   the input with one trailing dot removed and ASCII-lower-cased IS canon(v).
   Nothing is assumed about idna.ToASCII: the decoder's own checks suffice. *)
From Verif Require Import Base.GoPrim Base.Strings Base.ByteFm Proofs.PrefixBits Gen.Consts Gen.BytePreds Std.Netip Std.Net
  Model.Addr Model.Ip Model.Reversed Proofs.AddrProofs Proofs.BufioProofs Proofs.ReversedBasics Proofs.ReversedTotal
  Proofs.ReversedRoundtrip.

Ltac Zify.zify_post_hook ::= Z.div_mod_to_equations.

(* ================= netip.ParseAddr on dotted quads, inverted ================= *)

Fixpoint join_dots (l : list Z) : gostring :=
  match l with
  | [] => []
  | [x] => itoa x
  | x :: t => itoa x ++ 46 :: join_dots t
  end.

Definition partial (val dig : Z) : gostring := if dig =? 0 then [] else itoa val.

Definition cur_ok (val dig : Z) : Prop := (dig = 0 /\ val = 0) \/ (dig = len (itoa val) /\ byte val).

Lemma itoa_len_pos v : byte v -> 1 <= len (itoa v) <= 3.
Proof. intros Hv. destruct (itoa_shape v Hv) as [[_ ->]|[[_ ->]|[_ ->]]]; cbn; lia. Qed.

Lemma itoa_snoc v d : 1 <= v -> 0 <= d < 10 -> v * 10 + d <= 255 -> itoa (v * 10 + d) = itoa v ++ [48 + d].
Proof.
  intros Hv Hd Hle.
  assert (Hb : byte v) by (unfold byte; lia). assert (Hb' : byte (v * 10 + d)) by (unfold byte; lia).
  destruct (itoa_shape v Hb) as [[H1 ->]|[[H1 ->]|[H1 ->]]];
    destruct (itoa_shape (v * 10 + d) Hb') as [[H2 ->]|[[H2 ->]|[H2 ->]]]; try lia; cbn [app].
  - f_equal; [|f_equal]; lia.
  - f_equal; [|f_equal; [|f_equal]]; lia.
Qed.

Lemma is_digit_range c : is_digit c = true -> 0 <= c - 48 < 10.
Proof. unfold is_digit. intros H. apply andb_true_iff in H as [H1 H2]. apply Z.leb_le in H1, H2. lia. Qed.

Lemma parse_v4_fields_inv : forall s i0 pd val pos dig acc r,
  parse_v4_fields s i0 pd val pos dig acc = Some r ->
  cur_ok val dig -> (dig = 0 -> s <> [] /\ i0 || pd = true) -> 0 <= pos <= 3 ->
  exists rest, r = rev acc ++ rest /\ Forall byte rest /\ len rest = 4 - pos /\ partial val dig ++ s = join_dots rest.
Proof.
  induction s as [|c t IH]; intros i0 pd val pos dig acc r Hp Hcur Hz Hpos.
  - cbn [parse_v4_fields] in Hp. destruct (pos <? 3) eqn:E; [discriminate|]. apply Z.ltb_ge in E.
    injection Hp as <-. destruct Hcur as [[Hd _]|[Hd Hv]]; [destruct (Hz Hd) as [Hne _]; contradiction|].
    exists [val]. repeat split.
    + constructor; [exact Hv|constructor].
    + change (len [val]) with 1. lia.
    + unfold partial. pose proof (itoa_len_pos val Hv). destruct (Z.eqb_spec dig 0); [lia|]. rewrite app_nil_r. reflexivity.
  - cbn [parse_v4_fields] in Hp. destruct (is_digit c) eqn:Ed.
    + destruct ((dig =? 1) && (val =? 0)) eqn:Elz; [discriminate|].
      destruct (255 <? val * 10 + (c - 48)) eqn:Eov; [discriminate|]. apply Z.ltb_ge in Eov.
      pose proof (is_digit_range c Ed) as Hd.
      assert (Hcur' : cur_ok (val * 10 + (c - 48)) (dig + 1) /\ partial val dig ++ c :: t = partial (val * 10 + (c - 48)) (dig + 1) ++ t).
      { destruct Hcur as [[Hd0 Hv0]|[Hdl Hv]].
        - subst. split.
          + right. assert (Hb : byte (0 * 10 + (c - 48))) by (unfold byte; lia). split; [|exact Hb].
            destruct (itoa_shape _ Hb) as [[_ ->]|[[? _]|[? _]]]; [reflexivity|lia|lia].
          + unfold partial. cbn [Z.eqb Z.add app]. assert (Hb : byte (0 * 10 + (c - 48))) by (unfold byte; lia).
            destruct (itoa_shape _ Hb) as [[_ ->]|[[? _]|[? _]]]; [|lia|lia]. cbn [app]. f_equal. lia.
        - assert (Hv1 : 1 <= val).
          { unfold byte in Hv. destruct (Z.eq_dec val 0) as [->|]; [|lia].
            change (len (itoa 0)) with 1 in Hdl. subst dig. discriminate Elz. }
          pose proof (itoa_len_pos val Hv) as Hl.
          pose proof (itoa_snoc val (c - 48) Hv1 Hd Eov) as Hsn. split.
          + right. split; [rewrite Hsn, len_app; change (len [48 + (c - 48)]) with 1; lia|unfold byte; lia].
          + unfold partial. destruct (Z.eqb_spec dig 0); [lia|]. destruct (Z.eqb_spec (dig + 1) 0); [lia|].
            rewrite Hsn. rewrite <- app_assoc. cbn [app]. do 2 f_equal. lia. }
      destruct Hcur' as [Hcur' Hstr].
      assert (Hdig : 0 <= dig).
      { destruct Hcur as [[-> _]|[-> _]]; [lia|apply len_nonneg]. }
      destruct (IH false false _ pos (dig + 1) acc r Hp Hcur' ltac:(intros; lia) Hpos) as (rest & Hr & Hb & Hl & Hj).
      exists rest. repeat split; try assumption. rewrite Hstr. exact Hj.
    + destruct (c =? 46) eqn:Edot; [|discriminate]. apply Z.eqb_eq in Edot. subst c.
      destruct (i0 || (match t with [] => true | _ => false end) || pd) eqn:Eb; [discriminate|].
      apply orb_false_iff in Eb as [Eb Epd]. apply orb_false_iff in Eb as [Ei0 Et].
      destruct (pos =? 3) eqn:Ep3; [discriminate|]. apply Z.eqb_neq in Ep3.
      destruct Hcur as [[Hd0 _]|[Hdl Hv]].
      { destruct (Hz Hd0) as [_ Hor]. rewrite Ei0, Epd in Hor. discriminate. }
      destruct (IH false true 0 (pos + 1) 0 (val :: acc) r Hp) as (rest & Hr & Hb & Hl & Hj).
      * left. split; reflexivity.
      * intros _. split; [destruct t; [discriminate|discriminate]|reflexivity].
      * lia.
      * exists (val :: rest). repeat split.
        -- rewrite Hr. cbn [rev]. rewrite <- app_assoc. reflexivity.
        -- constructor; assumption.
        -- rewrite len_cons. lia.
        -- unfold partial in *. pose proof (itoa_len_pos val Hv). destruct (Z.eqb_spec dig 0); [lia|].
           cbn [Z.eqb app] in Hj. destruct rest as [|y rest']; [unfold len in Hl; cbn [length] in Hl; lia|].
           change (join_dots (val :: y :: rest')) with (itoa val ++ 46 :: join_dots (y :: rest')). rewrite <- Hj. reflexivity.
Qed.

Lemma parse_ipv4_inv s r : parse_ipv4 s = Some r ->
  exists a b c d, r = [a; b; c; d] /\ byte a /\ byte b /\ byte c /\ byte d /\ s = dotted4 a b c d.
Proof.
  intros H. unfold parse_ipv4 in H.
  assert (Hne : s <> []) by (intros ->; discriminate H).
  destruct (parse_v4_fields_inv s true false 0 0 0 [] r H) as (rest & Hr & Hb & Hl & Hj).
  - left. split; reflexivity.
  - intros _. split; [exact Hne|reflexivity].
  - lia.
  - cbn [rev app] in Hr. subst rest. cbn [partial Z.eqb app] in Hj.
    destruct r as [|a [|b [|c [|d [|e r']]]]]; cbn in Hl; try lia.
    exists a, b, c, d. inversion Hb as [|? ? Ha Hb1]; subst. inversion Hb1 as [|? ? Hb' Hb2]; subst.
    inversion Hb2 as [|? ? Hc Hb3]; subst. inversion Hb3 as [|? ? Hd _]; subst.
    split; [reflexivity|]. split; [exact Ha|]. split; [exact Hb'|]. split; [exact Hc|]. split; [exact Hd|]. reflexivity.
Qed.

(* ================= the IPv6 walk, inverted ================= *)

Lemma idx_inv s j c : idx s j = Ret c -> 0 <= j < len s /\ c = nth (Z.to_nat j) s 0.
Proof.
  unfold idx. destruct ((j <? 0) || (len s <=? j)) eqn:E; [discriminate|]. intros H. injection H as <-.
  apply orb_false_iff in E as [E1 E2]. apply Z.ltb_ge in E1. apply Z.leb_gt in E2. split; [lia|reflexivity].
Qed.

Lemma skipn_nth_cons {A} (d : A) : forall n s, (n < length s)%nat -> skipn n s = nth n s d :: skipn (S n) s.
Proof.
  induction n as [|n IH]; intros [|x s] H; cbn [length] in H; try lia; [reflexivity|].
  cbn [skipn nth]. rewrite (IH s) by lia. reflexivity.
Qed.

Definition lower_bytes (s : gostring) : Prop := forall c, In c s -> byte c /\ to_lower_ascii_byte c = c.

Lemma ipv6_loop_inv arpa : lower_bytes arpa -> forall n i acc r, 0 <= i ->
  ipv6_from_reversed_loop n i arpa acc = Ret (Ok r) ->
  exists l, length l = n /\ Forall byte l /\ r = rev l ++ acc /\
            firstn (4 * n) (skipn (Z.to_nat (4 * i)) arpa) = flat_map chunk6 l.
Proof.
  intros Hlow. induction n as [|n IH]; intros i acc r Hi H.
  - cbn [ipv6_from_reversed_loop] in H. injection H as <-. exists []. repeat split; constructor.
  - cbn [ipv6_from_reversed_loop] in H.
    destruct (idx arpa (i * 4)) as [c0| |] eqn:E0; try discriminate. cbn [bind] in H.
    destruct (gen_fromHexByte c0 =? 255) eqn:L0; [discriminate|]. apply Z.eqb_neq in L0.
    destruct (idx arpa (i * 4 + 2)) as [c2| |] eqn:E2; try discriminate. cbn [bind] in H.
    destruct (gen_fromHexByte c2 =? 255) eqn:L2; [discriminate|]. apply Z.eqb_neq in L2.
    destruct (idx arpa (i * 4 + 1)) as [c1| |] eqn:E1; try discriminate. cbn [bind] in H.
    destruct (idx arpa (i * 4 + 3)) as [c3| |] eqn:E3; try discriminate. cbn [bind] in H.
    destruct (negb (c1 =? 46) || negb (c3 =? 46)) eqn:Ed; [discriminate|].
    apply orb_false_iff in Ed as [D1 D3]. apply negb_false_iff in D1, D3. apply Z.eqb_eq in D1, D3. subst c1 c3.
    apply idx_inv in E0 as [R0 N0]. apply idx_inv in E1 as [R1 N1]. apply idx_inv in E2 as [R2 N2]. apply idx_inv in E3 as [R3 N3].
    destruct (IH (i + 1) _ r ltac:(lia) H) as (l' & Hl' & Hb' & Hr & Hf).
    set (k := Z.to_nat (4 * i)) in *.
    replace (Z.to_nat (i * 4)) with k in N0 by (unfold k; lia).
    replace (Z.to_nat (i * 4 + 1)) with (S k) in N1 by (unfold k; lia).
    replace (Z.to_nat (i * 4 + 2)) with (S (S k)) in N2 by (unfold k; lia).
    replace (Z.to_nat (i * 4 + 3)) with (S (S (S k))) in N3 by (unfold k; lia).
    replace (Z.to_nat (4 * (i + 1))) with (S (S (S (S k)))) in Hf by (unfold k; lia).
    assert (Hk : (S (S (S k)) < length arpa)%nat) by (unfold k, len in *; lia).
    assert (In0 : In c0 arpa) by (rewrite N0; apply nth_In; lia).
    assert (In2 : In c2 arpa) by (rewrite N2; apply nth_In; lia).
    destruct (Hlow c0 In0) as [B0 Lw0]. destruct (Hlow c2 In2) as [B2 Lw2].
    destruct (hexdigit_of_from_hex c0 B0 L0) as [H0 G0]. destruct (hexdigit_of_from_hex c2 B2 L2) as [H2 G2].
    rewrite Lw0 in H0. rewrite Lw2 in H2.
    set (lo := gen_fromHexByte c0) in *. set (hi := gen_fromHexByte c2) in *.
    exists ((hi * 16) mod 256 + lo :: l'). split; [cbn [length]; lia|]. split; [constructor; [unfold byte; lia|exact Hb']|].
    split; [rewrite Hr; cbn [rev]; rewrite <- app_assoc; reflexivity|].
    rewrite (skipn_nth_cons 0 k) by lia. rewrite (skipn_nth_cons 0 (S k)) by lia.
    rewrite (skipn_nth_cons 0 (S (S k))) by lia. rewrite (skipn_nth_cons 0 (S (S (S k)))) by lia.
    rewrite <- N0, <- N1, <- N2, <- N3.
    replace (4 * S n)%nat with (S (S (S (S (4 * n))))) by lia. cbn [firstn flat_map]. rewrite Hf.
    unfold chunk6. cbn [app].
    replace (((hi * 16) mod 256 + lo) mod 16) with lo by lia. replace (((hi * 16) mod 256 + lo) / 16) with hi by lia.
    rewrite H0, H2. reflexivity.
Qed.

(* ================= the decoder, inverted ================= *)

Lemma has_prefix_inv : forall p s, has_prefix p s = true -> exists t, s = p ++ t.
Proof.
  induction p as [|x p IH]; intros s H; [exists s; reflexivity|].
  destruct s as [|y s]; [discriminate|]. cbn [has_prefix] in H. apply andb_true_iff in H as [E H]. apply Z.eqb_eq in E. subst y.
  destruct (IH s H) as (t & ->). exists t. reflexivity.
Qed.

Lemma has_suffix_inv suf s : has_suffix suf s = true -> exists x, s = x ++ suf.
Proof.
  unfold has_suffix. intros H. destruct (has_prefix_inv _ _ H) as (t & Ht). exists (rev t).
  rewrite <- (rev_involutive s), Ht, rev_app_distr, rev_involutive. reflexivity.
Qed.

Lemma validate_arpa_inv {A} a (k : M (res A)) v : validate_arpa a k = Ret (Ok v) -> k = Ret (Ok v).
Proof.
  unfold validate_arpa. destruct (validate_domain_name a) as [[e|]| |]; cbn [bind]; try discriminate; [|auto].
  destruct (replace_kind e); cbn [bind]; discriminate.
Qed.

Lemma lower_bytes_lower s : Forall byte s -> lower_bytes (to_lower_ascii s).
Proof.
  intros Hs c Hin. unfold to_lower_ascii in Hin. apply in_map_iff in Hin as (x & <- & Hx).
  rewrite Forall_forall in Hs. specialize (Hs x Hx). unfold byte in *. unfold to_lower_ascii_byte, is_upper.
  destruct ((65 <=? x) && (x <=? 90)) eqn:E.
  - apply andb_true_iff in E as [E1 E2]. apply Z.leb_le in E1, E2. split; [lia|].
    destruct ((65 <=? x + 32) && (x + 32 <=? 90)) eqn:E'; [|reflexivity].
    apply andb_true_iff in E' as [E3 E4]. apply Z.leb_le in E3, E4. lia.
  - rewrite E. split; [lia|reflexivity].
Qed.

Lemma trim_dot_bytes s : Forall byte s -> Forall byte (trim_dot s).
Proof.
  intros Hs. unfold trim_dot. destruct (rev s) as [|c r] eqn:E; [exact Hs|].
  assert (Hr : Forall byte r).
  { apply Forall_rev in Hs. rewrite E in Hs. inversion Hs; assumption. }
  assert (Forall byte (rev r)) by (apply Forall_rev; exact Hr).
  repeat (match goal with |- context [match ?p with _ => _ end] => destruct p end); assumption.
Qed.

(* the accepted language: whatever IPFromReversedAddr accepts IS, after removing one
   trailing dot and ASCII-lower-casing, the canonical name of the address returned *)
Theorem language s a v : Forall byte s -> ip_from_reversed_addr s a = Ret (Ok v) ->
  (exists p q r t, v = [p; q; r; t] /\ Forall byte v /\ to_lower_ascii (trim_dot s) = canon4 v) \/
  (length v = 16%nat /\ Forall byte v /\ to_lower_ascii (trim_dot s) = canon6 v).
Proof.
  intros Hs H. unfold ip_from_reversed_addr in H. apply validate_arpa_inv in H.
  set (arpa := to_lower_ascii (trim_dot s)) in *.
  assert (Hlow : lower_bytes arpa) by (apply lower_bytes_lower, trim_dot_bytes; exact Hs).
  destruct (has_suffix suffix4 arpa) eqn:S4.
  - (* IPv4 *)
    left. destruct (has_suffix_inv _ _ S4) as (x & Hx).
    assert (Hsl : slice_to arpa (len arpa - len suffix4) = Ret x).
    { assert (L4 : len suffix4 = 13) by reflexivity.
      unfold slice_to. rewrite slice_ret; [|lia|rewrite Hx, len_app; pose proof (len_nonneg x); lia|lia].
      f_equal. cbn [Z.to_nat skipn]. rewrite Hx, len_app. replace (len x + len suffix4 - len suffix4 - 0) with (len x) by lia.
      unfold len. rewrite Nat2Z.id. rewrite firstn_app, Nat.sub_diag, firstn_all. cbn [firstn]. apply app_nil_r. }
    rewrite Hsl in H. cbn [bind] in H. unfold ipv4_from_reversed in H.
    destruct (parse_addr x) as [[b|b z]|] eqn:Ep; cbn [wrap_addr] in H; try discriminate. injection H as <-.
    unfold parse_addr in Ep. destruct (first_special x =? 46); [|destruct (first_special x =? 58); [|discriminate]].
    + destruct (parse_ipv4 x) as [b'|] eqn:E4; [|discriminate]. injection Ep as <-.
      destruct (parse_ipv4_inv x b' E4) as (p & q & r & t & -> & Hp & Hq & Hr & Ht & Hxx).
      exists t, r, q, p. cbn [rev app]. split; [reflexivity|]. split; [repeat (constructor; [assumption|]); constructor|]. rewrite canon4_shape. rewrite Hx, Hxx. reflexivity.
    + (* an IPv6 literal before the suffix parses to P6, never P4 *)
      unfold parse_ipv6 in Ep.
      repeat (match type of Ep with context [match ?p with _ => _ end] => destruct p; try discriminate end).
  - destruct (has_suffix suffix6 arpa) eqn:S6; [|discriminate].
    destruct (len arpa =? c_arpaV6MaxLen) eqn:El; [|discriminate]. apply Z.eqb_eq in El. change c_arpaV6MaxLen with 72 in El.
    right. destruct (ipv6_from_reversed arpa) as [[r|e]| |] eqn:E6; cbn [bind wrap_addr] in H; try discriminate.
    injection H as <-. unfold ipv6_from_reversed in E6.
    destruct (ipv6_loop_inv arpa Hlow 16 0 [] r ltac:(lia) E6) as (l & Hl & Hb & Hr & Hf).
    rewrite app_nil_r in Hr. cbn [Z.mul Z.to_nat skipn] in Hf.
    assert (Hlr : l = rev r) by (rewrite Hr, rev_involutive; reflexivity).
    split; [rewrite Hr, rev_length; exact Hl|]. split; [rewrite Hr; apply Forall_rev; exact Hb|].
    rewrite canon6_eq, <- Hlr, <- Hf.
    destruct (has_suffix_inv _ _ S6) as (x & Hx).
    assert (Hlx : length x = 63%nat).
    { rewrite Hx, len_app in El. change (len suffix6) with 9 in El. unfold len in El. lia. }
    rewrite Hx. rewrite firstn_app. rewrite Hlx. change (4 * 16 - 63)%nat with 1%nat.
    rewrite firstn_all2 by lia. rewrite <- app_assoc. reflexivity.
Qed.

(* ================= encoder and decoder together ================= *)

(* the address IPFromReversedAddr returns for IPToReversedAddr's name of [ip]:
   4 bytes for IPv4 and IPv4-mapped slices, the 16 bytes otherwise *)
Definition addr_of (ip : list Z) : list Z := match to4 ip with Some v => v | None => ip end.

Lemma Some_inj' {T} (a b : T) : Some a = Some b -> a = b.
Proof. intros H; injection H; auto. Qed.

Lemma In_skipn {A} (x : A) : forall n l, In x (skipn n l) -> In x l.
Proof. induction n as [|n IH]; intros [|y l] H; cbn [skipn] in H; try assumption. right. apply IH. exact H. Qed.

Lemma skipn_len {A} (l : list A) n : (n <= length l)%nat -> len (skipn n l) = len l - Z.of_nat n.
Proof. intros H. unfold len. rewrite skipn_length. lia. Qed.

Theorem codec_roundtrip ip n s : Forall byte ip -> ip_to_reversed_addr ip = Ok n ->
  to_lower_ascii (trim_dot s) = n ->
  ip_from_reversed_addr s (Some (trim_dot s)) = Ret (Ok (addr_of ip)).
Proof.
  intros Hb He Hs. rewrite encode_spec in He. unfold addr_of.
  destruct (to4 ip) as [v|] eqn:E4.
  - injection He as <-.
    assert (Hv : Forall byte v /\ len v = 4).
    { unfold to4 in E4. destruct (len ip =? 4) eqn:L4.
      - injection E4 as <-. apply Z.eqb_eq in L4. split; assumption.
      - destruct ((len ip =? 16) && eqb_str (firstn 12 ip) v4_in_v6_prefix) eqn:L16; [|discriminate]. apply Some_inj' in E4. subst v.
        apply andb_true_iff in L16 as [L16 _]. apply Z.eqb_eq in L16. split.
        + rewrite Forall_forall in *. intros x Hx. apply Hb. apply (In_skipn x 12 ip Hx).
        + rewrite skipn_len by (unfold len in L16; lia). lia. }
    destruct Hv as [Hvb Hvl]. destruct v as [|a [|b [|c [|d [|e v']]]]]; unfold len in Hvl; cbn [length] in Hvl; try lia.
    inversion Hvb as [|? ? Ha Hv1]; subst. inversion Hv1 as [|? ? Hb' Hv2]; subst.
    inversion Hv2 as [|? ? Hc Hv3]; subst. inversion Hv3 as [|? ? Hd _]; subst.
    apply roundtrip4; assumption.
  - unfold to4 in E4. unfold to16 in He. destruct (len ip =? 4); [discriminate|].
    destruct (len ip =? 16) eqn:L16; [|discriminate]. injection He as <-. apply Z.eqb_eq in L16.
    apply roundtrip6; [exact Hb|unfold len in L16; lia|exact Hs].
Qed.

Lemma trim_dot_snoc s : trim_dot (s ++ [46]) = s.
Proof. unfold trim_dot. rewrite rev_app_distr. cbn [rev app]. apply rev_involutive. Qed.

Lemma trim_dot_nodot s c : c <> 46 -> trim_dot (s ++ [c]) = s ++ [c].
Proof.
  intros Hc. unfold trim_dot. rewrite rev_app_distr. cbn [rev app].
  repeat (match goal with |- context [match ?p with _ => _ end] => destruct p end); try reflexivity; contradiction.
Qed.

Lemma encoded_ends_in_a ip n : ip_to_reversed_addr ip = Ok n -> exists y, n = y ++ [97].
Proof.
  rewrite encode_spec. destruct (to4 ip) as [v|]; [|destruct (to16 ip) as [v|]; [|discriminate]]; intros H; injection H as <-.
  - unfold canon4. eexists (_ ++ removelast suffix4_nodot). rewrite <- app_assoc. reflexivity.
  - unfold canon6. eexists (_ ++ removelast suffix6_nodot). rewrite <- app_assoc. reflexivity.
Qed.

(* every spelling: any mix of letter case, with or without one trailing dot *)
Theorem codec_spellings ip n s0 : Forall byte ip -> ip_to_reversed_addr ip = Ok n -> to_lower_ascii s0 = n ->
  ip_from_reversed_addr s0 (Some s0) = Ret (Ok (addr_of ip)) /\
  ip_from_reversed_addr (s0 ++ [46]) (Some s0) = Ret (Ok (addr_of ip)).
Proof.
  intros Hb He Hs. destruct (encoded_ends_in_a ip n He) as (y & Hy).
  assert (Hshape : exists s' c, s0 = s' ++ [c] /\ c <> 46).
  { rewrite Hy in Hs. unfold to_lower_ascii in Hs. apply map_eq_app in Hs as (l1 & l2 & -> & _ & H2).
    destruct l2 as [|c [|c' l2]]; try discriminate. injection H2 as H2. exists l1, c. split; [reflexivity|].
    intros ->. discriminate H2. }
  destruct Hshape as (s' & c & -> & Hc). split.
  - rewrite <- (trim_dot_nodot s' c Hc) at 2. apply (codec_roundtrip ip n); [exact Hb|exact He|]. rewrite trim_dot_nodot by exact Hc. exact Hs.
  - rewrite <- (trim_dot_snoc (s' ++ [c])) at 2. apply (codec_roundtrip ip n); [exact Hb|exact He|]. rewrite trim_dot_snoc. exact Hs.
Qed.

Lemma canon4_lower v : Forall byte v -> to_lower_ascii (canon4 v) = canon4 v.
Proof.
  intros Hv. apply to_lower_idem_digit_dot. unfold canon4. apply Forall_app. split; [|repeat constructor].
  apply Forall_forall. intros c Hin. apply in_flat_map in Hin as (b & Hb & Hc).
  rewrite Forall_forall in Hv. assert (Hbb : byte b) by (apply Hv; apply in_rev; exact Hb).
  apply in_app_or in Hc as [Hc|[<-|[]]]; [|reflexivity].
  destruct (itoa_digits b Hbb) as [Hd _]. rewrite Forall_forall in Hd. specialize (Hd c Hc).
  apply is_digit_range in Hd. unfold is_upper. destruct (Z.leb_spec 65 c); [lia|reflexivity].
Qed.

Lemma to4_bytes ip v : Forall byte ip -> to4 ip = Some v -> Forall byte v.
Proof.
  intros Hb E4. unfold to4 in E4. destruct (len ip =? 4); [injection E4 as <-; exact Hb|].
  destruct ((len ip =? 16) && eqb_str (firstn 12 ip) v4_in_v6_prefix); [|discriminate]. apply Some_inj' in E4. subst v.
  rewrite Forall_forall in *. intros x Hx. apply Hb. apply (In_skipn x 12 ip Hx).
Qed.

Lemma encoded_lower ip n : Forall byte ip -> ip_to_reversed_addr ip = Ok n -> to_lower_ascii n = n.
Proof.
  intros Hb. rewrite encode_spec. destruct (to4 ip) as [v|] eqn:E4; [|destruct (to16 ip) as [v|] eqn:E16; [|discriminate]]; intros H; injection H as <-.
  - apply canon4_lower. eapply to4_bytes; eauto.
  - apply canon6_lower. unfold to16 in E16. destruct (len ip =? 4).
    + injection E16 as <-. repeat (constructor; [unfold byte; lia|]). exact Hb.
    + destruct (len ip =? 16); [injection E16 as <-; exact Hb|discriminate].
Qed.

(* injectivity on addresses is a corollary: two slices with the same name denote the same address *)
Corollary codec_injective ip1 ip2 n : Forall byte ip1 -> Forall byte ip2 ->
  ip_to_reversed_addr ip1 = Ok n -> ip_to_reversed_addr ip2 = Ok n -> addr_of ip1 = addr_of ip2.
Proof.
  intros H1 H2 E1 E2.
  destruct (codec_spellings ip1 n n H1 E1 (encoded_lower ip1 n H1 E1)) as [D1 _].
  destruct (codec_spellings ip2 n n H2 E2 (encoded_lower ip2 n H2 E2)) as [D2 _].
  rewrite D1 in D2. injection D2 as D2. exact D2.
Qed.
