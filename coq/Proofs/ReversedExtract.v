(* Proofs/ReversedExtract.v — ExtractReversedAddr: the right-to-left label walk finds an
   aligned, maximal canonical ARPA suffix of the domain name and decodes it (C05). *)
From Verif Require Import Base.GoPrim Base.Strings Base.ByteFm Proofs.PrefixBits Gen.Consts Gen.BytePreds Std.Netip Std.Net
  Model.Addr Model.Ip Model.Reversed Proofs.AddrProofs Proofs.BufioProofs Proofs.ReversedBasics Proofs.ReversedTotal
  Proofs.ReversedRoundtrip Proofs.ReversedLanguage Proofs.ReversedPrefix.

Ltac Zify.zify_post_hook ::= Z.div_mod_to_equations.

(* ================= isIPv4Label = a canonical decimal octet ================= *)

Definition dstep (v c : Z) : Z := v * 10 + (c - 48).

Lemma fold_digits_ge : forall l n, forallb is_digit l = true -> 0 <= n -> n <= fold_left dstep l n.
Proof.
  induction l as [|c l IH]; intros n Hd Hn; cbn [fold_left]; [lia|]. cbn [forallb] in Hd. apply andb_true_iff in Hd as [Hc Hl].
  pose proof (is_digit_range c Hc). specialize (IH (dstep n c) Hl). unfold dstep in *. lia.
Qed.

Lemma parse_uint8_from_fold : forall l n, forallb is_digit l = true -> 0 <= n -> fold_left dstep l n <= 255 ->
  parse_uint8_from l n = Some (fold_left dstep l n).
Proof.
  induction l as [|c l IH]; intros n Hd Hn Hle; cbn [fold_left parse_uint8_from]; [reflexivity|].
  cbn [forallb] in Hd. apply andb_true_iff in Hd as [Hc Hl]. rewrite Hc. pose proof (is_digit_range c Hc) as Hr.
  cbn [fold_left] in Hle. pose proof (fold_digits_ge l (dstep n c) Hl ltac:(unfold dstep; lia)) as Hge. fold (dstep n c).
  destruct (Z.ltb_spec 255 (dstep n c)); [lia|]. apply IH; [exact Hl|unfold dstep; lia|exact Hle].
Qed.

Lemma is_ipv4_label_inv lab : is_ipv4_label lab = true -> exists v, byte v /\ lab = itoa v.
Proof.
  intros H. destruct lab as [|c [|c2 t]]; [discriminate| |].
  - cbn [is_ipv4_label] in H. pose proof (is_digit_range c H) as Hr. exists (c - 48).
    assert (Hb : byte (c - 48)) by (unfold byte; lia). split; [exact Hb|].
    destruct (itoa_shape _ Hb) as [[_ ->]|[[? _]|[? _]]]; [|lia|lia]. f_equal. lia.
  - cbn [is_ipv4_label] in H. destruct (3 <? len (c :: c2 :: t)) eqn:E3; [discriminate|].
    destruct (c =? 48) eqn:E0; [discriminate|]. apply andb_true_iff in H as [Hd Hv]. apply Z.leb_le in Hv.
    fold dstep in Hv. assert (Hp : parse_uint8 (c :: c2 :: t) = Some (fold_left dstep (c :: c2 :: t) 0)).
    { unfold parse_uint8. apply parse_uint8_from_fold; [exact Hd|lia|exact Hv]. }
    destruct (parse_uint8_inv _ _ Hp) as [Hi Hb]; [cbn [hd]; rewrite E0; reflexivity|]. eexists. split; [exact Hb|exact Hi].
Qed.

(* ================= slices of a concatenation ================= *)

Lemma slice_in_head {A} (q rest : list A) cur : 0 <= cur <= len q ->
  slice (q ++ rest) cur (len q) = Ret (skipn (Z.to_nat cur) q).
Proof.
  intros Hc. rewrite slice_ret; [|lia|lia|rewrite len_app; pose proof (len_nonneg rest); lia]. f_equal.
  rewrite skipn_app. replace (Z.to_nat cur - length q)%nat with 0%nat by (unfold len in Hc; lia). cbn [skipn].
  replace (Z.to_nat (len q - cur)) with (length (skipn (Z.to_nat cur) q)) by (rewrite skipn_length; unfold len in *; lia).
  apply firstn_app_exact.
Qed.

Definition aligned (pre : gostring) : Prop := pre = [] \/ exists q, pre = q ++ [46].

Definition last_label (q : gostring) : gostring := skipn (Z.to_nat (last_index_dot q + 1)) q.

Lemma canon4_snoc os v : canon4 (os ++ [v]) = itoa v ++ 46 :: canon4 os.
Proof. unfold canon4. rewrite rev_app_distr. cbn [rev app flat_map]. rewrite <- !app_assoc. reflexivity. Qed.

(* ================= indexFirstV4Label ================= *)

Lemma v4_walk : forall n pre os, Forall byte os -> aligned pre ->
  exists pre' os', index_first_v4_loop n (pre ++ canon4 os) (len pre) = Ret (len pre') /\
    Forall byte os' /\ len os' <= Z.of_nat n /\ pre ++ canon4 os = pre' ++ canon4 (os ++ os') /\ aligned pre' /\
    (len os' = Z.of_nat n \/ pre' = [] \/ exists q, pre' = q ++ [46] /\ is_ipv4_label (last_label q) = false).
Proof.
  induction n as [|n IH]; intros pre os Hb Hal.
  - exists pre, []. cbn [index_first_v4_loop]. split; [reflexivity|]. split; [constructor|]. split; [cbn; lia|].
    split; [rewrite app_nil_r; reflexivity|]. split; [exact Hal|]. left. reflexivity.
  - cbn [index_first_v4_loop]. destruct (Z.leb_spec (len pre) 0) as [Hle|Hgt].
    { assert (pre = []) by (destruct pre; [reflexivity|rewrite len_cons in Hle; pose proof (len_nonneg pre); lia]). subst pre.
      exists [], []. split; [reflexivity|]. split; [constructor|]. split; [cbn; lia|].
      split; [rewrite app_nil_r; reflexivity|]. split; [left; reflexivity|]. right. left. reflexivity. }
    destruct Hal as [->|(q & ->)]; [cbn in Hgt; lia|].
    replace (len (q ++ [46]) - 1) with (len q) by (rewrite len_app; change (len [46]) with 1; lia).
    rewrite <- app_assoc. rewrite slice_to_app. cbn [bind].
    pose proof (last_index_dot_range q) as Hr.
    rewrite slice_in_head by lia. cbn [bind]. fold (last_label q).
    destruct (is_ipv4_label (last_label q)) eqn:El; cbn [negb].
    + destruct (is_ipv4_label_inv _ El) as (v & Hv & Hlab).
      (* the string before the label that was just accepted *)
      assert (Hq : exists pre2, aligned pre2 /\ q = pre2 ++ itoa v /\ last_index_dot q + 1 = len pre2).
      { unfold last_label in Hlab. destruct (last_index_dot_decomp q) as [[Hi Hnd]|(p & lab & Hq & Hl & Hi)].
        - exists []. rewrite Hi in Hlab |- *. cbn in Hlab. split; [left; reflexivity|]. split; [exact Hlab|reflexivity].
        - exists (p ++ [46]). rewrite Hi in Hlab |- *. split; [right; exists p; reflexivity|].
          rewrite Hq in Hlab. replace (Z.to_nat (len p + 1)) with (length (p ++ [46])) in Hlab by (rewrite app_length; unfold len; cbn [length]; lia).
          replace (p ++ 46 :: lab) with ((p ++ [46]) ++ lab) in Hlab by (rewrite <- app_assoc; reflexivity).
          rewrite skipn_app, skipn_all, Nat.sub_diag in Hlab. cbn [skipn app] in Hlab.
          split; [rewrite Hq, <- Hlab, <- app_assoc; reflexivity|rewrite len_app; reflexivity]. }
      destruct Hq as (pre2 & Hal2 & Hq & Hcur). rewrite Hcur.
      assert (Hdom : q ++ [46] ++ canon4 os = pre2 ++ canon4 (os ++ [v])).
      { rewrite canon4_snoc, Hq, <- app_assoc. reflexivity. }
      rewrite Hdom.
      destruct (IH pre2 (os ++ [v]) ltac:(apply Forall_app; split; [exact Hb|constructor; [exact Hv|constructor]]) Hal2)
        as (pre' & os'' & Hloop & Hb'' & Hl'' & Hd'' & Hal' & Hstop).
      exists pre', (v :: os''). split; [exact Hloop|]. split; [constructor; assumption|].
      split; [rewrite len_cons; lia|]. split; [rewrite Hd'', <- app_assoc; reflexivity|]. split; [exact Hal'|].
      destruct Hstop as [Hs|[Hs|Hs]]; [left; rewrite len_cons; lia|right; left; exact Hs|right; right; exact Hs].
    + exists (q ++ [46]), []. split; [reflexivity|]. split; [constructor|]. split; [cbn; lia|].
      split; [rewrite app_nil_r, <- app_assoc; reflexivity|]. split; [right; exists q; reflexivity|].
      right. right. exists q. split; [reflexivity|exact El].
Qed.

(* ================= indexFirstV6Label ================= *)

Definition hex_label_end (q : gostring) : Prop := exists q0 c, q = q0 ++ [c] /\ aligned q0 /\ gen_fromHexByte c <> 255.

Lemma canon6n_snoc ns h : canon6n (ns ++ [h]) = hexdigit h :: 46 :: canon6n ns.
Proof. unfold canon6n. rewrite rev_app_distr. reflexivity. Qed.

Lemma v6_walk domain : lower_bytes domain -> nth 0 domain 0 <> 46 -> forall n pre ns,
  domain = pre ++ canon6n ns -> Forall nibble ns -> aligned pre ->
  exists pre' ns', index_first_v6_loop n domain (len pre) = Ret (len pre') /\
    Forall nibble ns' /\ len ns' <= Z.of_nat n /\ domain = pre' ++ canon6n (ns ++ ns') /\ aligned pre' /\
    (len ns' = Z.of_nat n \/ pre' = [] \/ exists q, pre' = q ++ [46] /\ ~ hex_label_end q).
Proof.
  intros Hlow Hnd. induction n as [|n IH]; intros pre ns Hdom Hn Hal.
  - exists pre, []. cbn [index_first_v6_loop]. split; [reflexivity|]. split; [constructor|]. split; [cbn; lia|].
    split; [rewrite app_nil_r; exact Hdom|]. split; [exact Hal|]. left. reflexivity.
  - cbn [index_first_v6_loop]. destruct (Z.leb_spec (len pre) 0) as [Hle|Hgt].
    { assert (pre = []) by (destruct pre; [reflexivity|rewrite len_cons in Hle; pose proof (len_nonneg pre); lia]). subst pre.
      exists [], []. split; [reflexivity|]. split; [constructor|]. split; [cbn; lia|].
      split; [rewrite app_nil_r; exact Hdom|]. split; [left; reflexivity|]. right. left. reflexivity. }
    destruct Hal as [->|(q & ->)]; [cbn in Hgt; lia|].
    destruct (exists_last (l := q)) as (q0 & c & ->).
    { intros ->. apply Hnd. rewrite Hdom. reflexivity. }
    replace (len ((q0 ++ [c]) ++ [46]) - 2) with (len q0) by (rewrite !len_app; change (len [c]) with 1; change (len [46]) with 1; lia).
    assert (Hdom' : domain = q0 ++ c :: 46 :: canon6n ns) by (rewrite Hdom, <- !app_assoc; reflexivity).
    assert (Hstop : forall (Hno : ~ hex_label_end (q0 ++ [c])),
      exists pre' ns', Ret (len ((q0 ++ [c]) ++ [46])) = Ret (len pre') /\ Forall nibble ns' /\ len ns' <= Z.of_nat (S n) /\
        domain = pre' ++ canon6n (ns ++ ns') /\ aligned pre' /\
        (len ns' = Z.of_nat (S n) \/ pre' = [] \/ exists q, pre' = q ++ [46] /\ ~ hex_label_end q)).
    { intros Hno. exists ((q0 ++ [c]) ++ [46]), []. split; [reflexivity|]. split; [constructor|]. split; [cbn; lia|].
      split; [rewrite app_nil_r; exact Hdom|]. split; [right; eexists; reflexivity|]. right. right. eexists. split; [reflexivity|exact Hno]. }
    (* the character before the candidate label *)
    assert (Hbefore : (if 0 <? len q0 then do p <- idx domain (len q0 - 1); Ret (negb (p =? 46)) else Ret false)
                      = Ret (if 0 <? len q0 then negb (last q0 0 =? 46) else false)).
    { destruct (Z.ltb_spec 0 (len q0)) as [Hpos|_]; [|reflexivity].
      destruct (exists_last (l := q0)) as (q1 & d & ->); [intros ->; cbn in Hpos; lia|].
      rewrite Hdom'. rewrite <- app_assoc. cbn [app].
      replace (len (q1 ++ [d]) - 1) with (len q1) by (rewrite len_app; change (len [d]) with 1; lia).
      rewrite idx_app_head. cbn [bind]. rewrite last_last. reflexivity. }
    rewrite Hbefore. cbn [bind].
    destruct (if 0 <? len q0 then negb (last q0 0 =? 46) else false) eqn:Est.
    + (* not preceded by a dot: the label has more than one character *)
      apply Hstop. intros (q0' & c' & Heq & Hal' & _). apply app_inj_tail in Heq as [<- <-].
      destruct (Z.ltb_spec 0 (len q0)) as [Hpos|_]; [|discriminate]. apply negb_true_iff, Z.eqb_neq in Est.
      destruct Hal' as [->|(q1 & ->)]; [cbn in Hpos; lia|]. rewrite last_last in Est. contradiction.
    + assert (Hal0 : aligned q0).
      { destruct (Z.ltb_spec 0 (len q0)) as [Hpos|Hz].
        - apply negb_false_iff, Z.eqb_eq in Est. right. exists (removelast q0). rewrite <- Est. apply app_removelast_last.
          intros ->. cbn in Hpos. lia.
        - left. destruct q0; [reflexivity|rewrite len_cons in Hz; pose proof (len_nonneg q0); lia]. }
      assert (Hc : idx domain (len q0) = Ret c) by (rewrite Hdom'; apply idx_app_head). rewrite Hc. cbn [bind].
      destruct (Z.eqb_spec (gen_fromHexByte c) 255) as [E255|N255].
      * apply Hstop. intros (q0' & c' & Heq & _ & Hne). apply app_inj_tail in Heq as [<- <-]. contradiction.
      * assert (Hin : In c domain) by (rewrite Hdom'; apply in_or_app; right; left; reflexivity).
        destruct (Hlow c Hin) as [Bc Lc]. destruct (hexdigit_of_from_hex c Bc N255) as [Hh Hg]. rewrite Lc in Hh.
        assert (Hdom2 : domain = q0 ++ canon6n (ns ++ [gen_fromHexByte c])) by (rewrite canon6n_snoc, Hh; exact Hdom').
        destruct (IH q0 (ns ++ [gen_fromHexByte c]) Hdom2 ltac:(apply Forall_app; split; [exact Hn|constructor; [exact Hg|constructor]]) Hal0)
          as (pre' & ns'' & Hloop & Hn'' & Hl'' & Hd'' & Hal' & Hstop').
        exists pre', (gen_fromHexByte c :: ns''). split; [exact Hloop|]. split; [constructor; assumption|].
        split; [rewrite len_cons; lia|]. split; [rewrite Hd'', <- app_assoc; reflexivity|]. split; [exact Hal'|].
        destruct Hstop' as [Hs|[Hs|Hs]]; [left; rewrite len_cons; lia|right; left; exact Hs|right; right; exact Hs].
Qed.

(* ================= ExtractReversedAddr ================= *)

Definition extract_go (domain : gostring) (v4 : bool) : M (res (list Z * Z)) :=
  let suf_len := if v4 then len suffix4 else len suffix6 in
  do aligned <- (if len domain <? suf_len then Ret true
                 else do c <- idx domain (len domain - suf_len); Ret (c =? 46));
  if aligned then
    do i <- (if v4 then index_first_v4_label domain else index_first_v6_label domain);
    do arpa <- slice_from domain i;
    if v4 then subnet_from_reversed_v4 arpa else subnet_from_reversed_v6 arpa
  else Ret (Err EPlainErr).

Lemma extract_unfold input a :
  extract_reversed_addr input a =
  validate_arpa a (
    let domain := to_lower_ascii (trim_dot input) in
    do r <- (if has_suffix suffix4_nodot domain then extract_go domain true
             else if has_suffix suffix6_nodot domain then extract_go domain false
             else Ret (Err EPlainErr));
    Ret (wrap_addr r)).
Proof. reflexivity. Qed.

Lemma aligned_dec pre : aligned pre \/ ~ aligned pre.
Proof.
  destruct pre as [|x t]; [left; left; reflexivity|].
  destruct (exists_last (l := x :: t)) as (q & c & E); [discriminate|]. rewrite E.
  destruct (Z.eq_dec c 46) as [->|Hc]; [left; right; exists q; reflexivity|].
  right. intros [H|(q' & H)]; [destruct q; discriminate|]. apply app_inj_tail in H as [_ H]. contradiction.
Qed.

(* the alignment test in front of the root: the byte before it is a dot, or there is nothing *)
Lemma aligned_test pre root k : len root = k - 1 -> 1 <= k ->
  (if len (pre ++ root) <? k then Ret true else do c <- idx (pre ++ root) (len (pre ++ root) - k); Ret (c =? 46))
  = Ret (match rev pre with [] => true | c :: _ => c =? 46 end).
Proof.
  intros Hr Hk. rewrite len_app, Hr. pose proof (len_nonneg pre) as Hp.
  destruct pre as [|x t]; [change (len (@nil Z)) with 0; destruct (Z.ltb_spec (0 + (k - 1)) k); [reflexivity|lia]|].
  destruct (Z.ltb_spec (len (x :: t) + (k - 1)) k); [rewrite len_cons in *; pose proof (len_nonneg t); lia|].
  destruct (exists_last (l := x :: t)) as (q & c & E); [discriminate|]. rewrite E. rewrite rev_app_distr. cbn [rev app].
  replace (len (q ++ [c]) + (k - 1) - k) with (len q) by (rewrite len_app; change (len [c]) with 1; lia).
  rewrite <- app_assoc. cbn [app]. rewrite idx_app_head. reflexivity.
Qed.

Lemma aligned_test_true pre : aligned pre -> match rev pre with [] => true | c :: _ => c =? 46 end = true.
Proof. intros [->|(q & ->)]; [reflexivity|]. rewrite rev_app_distr. reflexivity. Qed.

Lemma aligned_test_false pre : ~ aligned pre -> match rev pre with [] => true | c :: _ => c =? 46 end = false.
Proof.
  intros H. destruct (rev pre) as [|c r] eqn:E.
  - exfalso. apply H. left. apply (f_equal (@rev Z)) in E. rewrite rev_involutive in E. exact E.
  - destruct (Z.eqb_spec c 46) as [->|]; [|reflexivity]. exfalso. apply H. right. exists (rev r).
    apply (f_equal (@rev Z)) in E. rewrite rev_involutive in E. exact E.
Qed.

Definition maximal4 (pre : gostring) (os : list Z) : Prop :=
  len os = 4 \/ pre = [] \/ exists q, pre = q ++ [46] /\ is_ipv4_label (last_label q) = false.
Definition maximal6 (pre : gostring) (ns : list Z) : Prop :=
  len ns = 32 \/ pre = [] \/ exists q, pre = q ++ [46] /\ ~ hex_label_end q.

Lemma go4_aligned pre : aligned pre ->
  exists pre' os, pre ++ suffix4_nodot = pre' ++ canon4 os /\ aligned pre' /\ Forall byte os /\ len os <= 4 /\ maximal4 pre' os /\
    extract_go (pre ++ suffix4_nodot) true = Ret (Ok (pad_to 4 os, len os * 8)).
Proof.
  intros Hal. unfold extract_go. rewrite (aligned_test pre suffix4_nodot (len suffix4)) by (cbn; lia).
  rewrite aligned_test_true by exact Hal. cbn [bind]. unfold index_first_v4_label.
  replace (len (pre ++ suffix4_nodot) - len suffix4 + 1) with (len pre) by (rewrite len_app; change (len suffix4_nodot) with 12; change (len suffix4) with 13; lia).
  destruct (v4_walk 4 pre [] ltac:(constructor) Hal) as (pre' & os & Hloop & Hb & Hl & Hdom & Hal' & Hstop).
  change (canon4 []) with suffix4_nodot in Hloop, Hdom. cbn [app] in Hdom. rewrite Hloop. cbn [bind].
  exists pre', os. split; [exact Hdom|]. split; [exact Hal'|]. split; [exact Hb|]. split; [exact Hl|]. split; [exact Hstop|].
  rewrite Hdom, slice_from_app. cbn [bind]. apply subnet_v4_canon; assumption.
Qed.

Lemma go4_unaligned pre : ~ aligned pre -> extract_go (pre ++ suffix4_nodot) true = Ret (Err EPlainErr).
Proof.
  intros Hal. unfold extract_go. rewrite (aligned_test pre suffix4_nodot (len suffix4)) by (cbn; lia).
  rewrite aligned_test_false by exact Hal. reflexivity.
Qed.

Lemma go6_aligned pre : aligned pre -> lower_bytes (pre ++ suffix6_nodot) -> nth 0 (pre ++ suffix6_nodot) 0 <> 46 ->
  exists pre' ns, pre ++ suffix6_nodot = pre' ++ canon6n ns /\ aligned pre' /\ Forall nibble ns /\ len ns <= 32 /\ maximal6 pre' ns /\
    extract_go (pre ++ suffix6_nodot) false = Ret (Ok (pad_to 16 (pack_nibbles ns), len ns * 4)).
Proof.
  intros Hal Hlow Hnd. unfold extract_go. rewrite (aligned_test pre suffix6_nodot (len suffix6)) by (cbn; lia).
  rewrite aligned_test_true by exact Hal. cbn [bind]. unfold index_first_v6_label.
  replace (len (pre ++ suffix6_nodot) - len suffix6 + 1) with (len pre) by (rewrite len_app; change (len suffix6_nodot) with 8; change (len suffix6) with 9; lia).
  destruct (v6_walk _ Hlow Hnd 32 pre [] eq_refl ltac:(constructor) Hal) as (pre' & ns & Hloop & Hn & Hl & Hdom & Hal' & Hstop).
  cbn [app] in Hdom. rewrite Hloop. cbn [bind].
  exists pre', ns. split; [exact Hdom|]. split; [exact Hal'|]. split; [exact Hn|]. split; [exact Hl|]. split; [exact Hstop|].
  rewrite Hdom, slice_from_app. cbn [bind]. apply subnet_v6_canon; assumption.
Qed.

Lemma go6_unaligned pre : ~ aligned pre -> extract_go (pre ++ suffix6_nodot) false = Ret (Err EPlainErr).
Proof.
  intros Hal. unfold extract_go. rewrite (aligned_test pre suffix6_nodot (len suffix6)) by (cbn; lia).
  rewrite aligned_test_false by exact Hal. reflexivity.
Qed.

(* what a successful extraction means *)
Definition extracted (domain : gostring) (ip : list Z) (bits : Z) : Prop :=
  (exists pre os, domain = pre ++ canon4 os /\ aligned pre /\ Forall byte os /\ len os <= 4 /\ maximal4 pre os /\
                  ip = pad_to 4 os /\ bits = len os * 8) \/
  (exists pre ns, domain = pre ++ canon6n ns /\ aligned pre /\ Forall nibble ns /\ len ns <= 32 /\ maximal6 pre ns /\
                  ip = pad_to 16 (pack_nibbles ns) /\ bits = len ns * 4).

Theorem extract_sound s a ip bits : Forall byte s -> nth 0 (trim_dot s) 0 <> 46 ->
  extract_reversed_addr s a = Ret (Ok (ip, bits)) -> extracted (to_lower_ascii (trim_dot s)) ip bits.
Proof.
  intros Hs Hnd H. rewrite extract_unfold in H. apply validate_arpa_inv in H. cbv zeta in H.
  set (domain := to_lower_ascii (trim_dot s)) in *.
  assert (Hlow : lower_bytes domain) by (apply lower_bytes_lower, trim_dot_bytes; exact Hs).
  assert (Hnd' : nth 0 domain 0 <> 46).
  { unfold domain. rewrite nth_to_lower. intros E. apply Hnd. apply lower_byte_dot. exact E. }
  destruct (has_suffix suffix4_nodot domain) eqn:S4.
  - destruct (has_suffix_inv _ _ S4) as (pre & Hx). rewrite Hx in *. destruct (aligned_dec pre) as [Hal|Hal].
    + destruct (go4_aligned pre Hal) as (pre' & os & Hdom & Hal' & Hb & Hl & Hmax & Hgo). rewrite Hgo in H. cbn [bind wrap_addr] in H.
      injection H as <- <-. left. exists pre', os. repeat (split; [assumption|]). split; reflexivity.
    + rewrite go4_unaligned in H by exact Hal. discriminate.
  - destruct (has_suffix suffix6_nodot domain) eqn:S6; [|discriminate].
    destruct (has_suffix_inv _ _ S6) as (pre & Hx). rewrite Hx in *. destruct (aligned_dec pre) as [Hal|Hal].
    + destruct (go6_aligned pre Hal Hlow Hnd') as (pre' & ns & Hdom & Hal' & Hn & Hl & Hmax & Hgo). rewrite Hgo in H. cbn [bind wrap_addr] in H.
      injection H as <- <-. right. exists pre', ns. repeat (split; [assumption|]). split; reflexivity.
    + rewrite go6_unaligned in H by exact Hal. discriminate.
Qed.

(* every valid domain name with a label-aligned ARPA root is decoded *)
Theorem extract_succeeds s pre root : Forall byte s -> name_okb domlabelb (trim_dot s) = true ->
  root = suffix4_nodot \/ root = suffix6_nodot ->
  to_lower_ascii (trim_dot s) = pre ++ root -> aligned pre ->
  exists ip bits, extract_reversed_addr s (Some (trim_dot s)) = Ret (Ok (ip, bits)).
Proof.
  intros Hs Hok Hroot Hdom Hal. rewrite extract_unfold. rewrite validate_arpa_valid by (rewrite name_okb_lower; exact Hok). cbv zeta.
  assert (Hlow : lower_bytes (to_lower_ascii (trim_dot s))) by (apply lower_bytes_lower, trim_dot_bytes; exact Hs).
  assert (Hnd' : nth 0 (to_lower_ascii (trim_dot s)) 0 <> 46).
  { rewrite nth_to_lower. intros E. apply (name_ok_no_leading_dot _ Hok). apply lower_byte_dot. exact E. }
  rewrite Hdom in *. destruct Hroot as [-> | ->].
  - rewrite has_suffix_app. destruct (go4_aligned pre Hal) as (pre' & os & _ & _ & _ & _ & _ & Hgo). rewrite Hgo. cbn [bind wrap_addr].
    eexists. eexists. reflexivity.
  - rewrite no_suffix4_in_ip6, has_suffix_app.
    destruct (go6_aligned pre Hal Hlow Hnd') as (pre' & ns & _ & _ & _ & _ & _ & Hgo). rewrite Hgo. cbn [bind wrap_addr].
    eexists. eexists. reflexivity.
Qed.

(* ================= maximal = longest ================= *)

Section Labels.
  Variable lab : Z -> gostring.
  Variable ok : Z -> Prop.
  Hypothesis lab_dotfree : forall b, ok b -> Forall (fun c => c <> 46) (lab b).
  Hypothesis lab_inj : forall a b, ok a -> ok b -> lab a = lab b -> a = b.

  Definition fm (l : list Z) : gostring := flat_map (fun b => lab b ++ [46]) l.

  Lemma dotfree_prefix_eq : forall l1 l2 r1 r2, Forall (fun c => c <> 46) l1 -> Forall (fun c => c <> 46) l2 ->
    l1 ++ 46 :: r1 = l2 ++ 46 :: r2 -> l1 = l2 /\ r1 = r2.
  Proof.
    induction l1 as [|x l1 IH]; intros l2 r1 r2 H1 H2 E.
    - destruct l2 as [|y l2]; [injection E as ->; split; reflexivity|].
      cbn [app] in E. injection E as <- _. inversion H2; subst. contradiction.
    - inversion H1 as [|? ? Hx H1']; subst. destruct l2 as [|y l2].
      + cbn [app] in E. injection E as -> _. contradiction.
      + cbn [app] in E. injection E as <- E. inversion H2 as [|? ? Hy H2']; subst. destruct (IH l2 r1 r2 H1' H2' E) as [-> ->]. split; reflexivity.
  Qed.

  Lemma first_dot_decomp : forall e, In 46 e -> exists l r, e = l ++ 46 :: r /\ Forall (fun c => c <> 46) l.
  Proof.
    induction e as [|x e IH]; intros Hin; [contradiction|]. destruct (Z.eq_dec x 46) as [->|Hx].
    - exists [], e. split; [reflexivity|constructor].
    - destruct Hin as [E|Hin]; [contradiction|]. destruct (IH Hin) as (l & r & -> & Hl). exists (x :: l), r. split; [reflexivity|constructor; assumption].
  Qed.

  Lemma fm_suffix : forall A B e, Forall ok A -> Forall ok B -> fm A = e ++ fm B -> (e = [] \/ exists e', e = e' ++ [46]) ->
    exists A1, A = A1 ++ B /\ e = fm A1.
  Proof.
    induction A as [|a A IH]; intros B e HA HB E He.
    - cbn in E. symmetry in E. apply app_eq_nil in E as [-> EB]. exists []. split; [|reflexivity].
      destruct B as [|b B]; [reflexivity|]. cbn in EB. destruct (lab b); discriminate.
    - inversion HA as [|? ? Ha HA']; subst. unfold fm in E. cbn [flat_map] in E. fold (fm A) in E. fold (fm B) in E. rewrite <- app_assoc in E. cbn [app] in E.
      destruct He as [->|(e' & ->)].
      + cbn [app] in E. destruct B as [|b B].
        { cbn in E. destruct (lab a); discriminate. }
        inversion HB as [|? ? Hb HB']; subst. unfold fm in E at 2. cbn [flat_map] in E. fold (fm B) in E. rewrite <- app_assoc in E. cbn [app] in E.
        destruct (dotfree_prefix_eq _ _ _ _ (lab_dotfree a Ha) (lab_dotfree b Hb) E) as [El Er].
        apply lab_inj in El; [|assumption|assumption]. subst b.
        destruct (IH B [] HA' HB' Er (or_introl eq_refl)) as (A1 & HA1 & Hfm).
        destruct A1 as [|x A1]; [|cbn in Hfm; destruct (lab x); discriminate].
        exists []. cbn [app] in *. subst A. split; reflexivity.
      + assert (Hin : In 46 (e' ++ [46])) by (apply in_or_app; right; left; reflexivity).
        destruct (first_dot_decomp _ Hin) as (l & r & Hlr & Hl). rewrite Hlr in E. rewrite <- app_assoc in E. cbn [app] in E.
        destruct (dotfree_prefix_eq _ _ _ _ (lab_dotfree a Ha) Hl E) as [El Er].
        assert (Hr : r = [] \/ exists r', r = r' ++ [46]).
        { destruct r as [|y r0]; [left; reflexivity|]. right. destruct (exists_last (l := y :: r0)) as (r' & z & Ez); [discriminate|].
          exists r'. rewrite Ez in Hlr |- *. 
          replace (l ++ 46 :: r' ++ [z]) with ((l ++ 46 :: r') ++ [z]) in Hlr by (rewrite <- app_assoc; reflexivity).
          apply app_inj_tail in Hlr as [_ <-]. reflexivity. }
        destruct (IH B r HA' HB Er Hr) as (A1 & HA1 & Hfm). exists (a :: A1). split; [rewrite HA1; reflexivity|].
        rewrite Hlr. unfold fm. cbn [flat_map]. fold (fm A1). rewrite <- app_assoc, <- Hfm, El. reflexivity.
  Qed.
End Labels.

Lemma itoa_inj a b : byte a -> byte b -> itoa a = itoa b -> a = b.
Proof. intros Ha Hb E. pose proof (itoa_uint8 a Ha) as Pa. rewrite E, (itoa_uint8 b Hb) in Pa. congruence. Qed.

Lemma hexlab_inj a b : nibble a -> nibble b -> [hexdigit a] = [hexdigit b] -> a = b.
Proof.
  unfold nibble. intros Ha Hb E. injection E as E. rewrite <- (from_hex_of_hexdigit a Ha), <- (from_hex_of_hexdigit b Hb), E. reflexivity.
Qed.

Lemma canon4_fm os : canon4 os = fm itoa (rev os) ++ suffix4_nodot.
Proof. reflexivity. Qed.

Lemma canon6n_fm ns : canon6n ns = fm (fun n => [hexdigit n]) (rev ns) ++ suffix6_nodot.
Proof. reflexivity. Qed.

Lemma aligned_tail pre2 e : aligned (pre2 ++ e) -> e <> [] -> exists e', e = e' ++ [46].
Proof.
  intros [E|(q & E)] Hne; [apply app_eq_nil in E as [_ ->]; contradiction|].
  destruct (exists_last Hne) as (e' & z & ->). exists e'. rewrite app_assoc in E. apply app_inj_tail in E as [_ ->]. reflexivity.
Qed.

Lemma aligned_app_fm lab pre2 A : aligned pre2 -> aligned (pre2 ++ fm lab A).
Proof.
  intros Hal. destruct A as [|a A] using rev_ind; [cbn; rewrite app_nil_r; exact Hal|].
  right. unfold fm. rewrite flat_map_app. cbn [flat_map]. rewrite app_nil_r. exists (pre2 ++ flat_map (fun b => lab b ++ [46]) A ++ lab a).
  rewrite <- !app_assoc. reflexivity.
Qed.

Lemma last_label_aligned x lab : aligned x -> Forall (fun c => c <> 46) lab -> last_label (x ++ lab) = lab.
Proof.
  intros [->|(q & ->)] Hl; unfold last_label.
  - cbn [app]. rewrite last_index_dot_none by exact Hl. reflexivity.
  - rewrite <- app_assoc. cbn [app]. rewrite last_index_dot_app by exact Hl.
    replace (Z.to_nat (len q + 1)) with (length (q ++ [46])) by (rewrite app_length; unfold len; cbn [length]; lia).
    replace (q ++ 46 :: lab) with ((q ++ [46]) ++ lab) by (rewrite <- app_assoc; reflexivity).
    rewrite skipn_app, skipn_all, Nat.sub_diag. reflexivity.
Qed.

(* common part: a shorter front means the longer name has extra labels on the left *)
Lemma longer_decomp (lab : Z -> gostring) (ok : Z -> Prop) root pre A pre2 A2 :
  (forall b, ok b -> Forall (fun c => c <> 46) (lab b)) -> (forall a b, ok a -> ok b -> lab a = lab b -> a = b) ->
  pre ++ fm lab A ++ root = pre2 ++ fm lab A2 ++ root -> aligned pre -> Forall ok A -> Forall ok A2 -> len pre2 < len pre ->
  exists A1 m, A2 = (A1 ++ [m]) ++ A /\ pre = pre2 ++ fm lab A1 ++ lab m ++ [46].
Proof.
  intros Hdf Hinj E Hal HA HA2 Hlt.
  assert (Hpre : exists e, pre = pre2 ++ e /\ e <> []).
  { exists (skipn (length pre2) pre). assert (Hf : firstn (length pre2) pre = pre2).
    { apply (f_equal (firstn (length pre2))) in E. rewrite firstn_app_exact in E. rewrite firstn_app in E.
      replace (length pre2 - length pre)%nat with 0%nat in E by (unfold len in Hlt; lia). cbn [firstn] in E. rewrite app_nil_r in E. exact E. }
    split; [rewrite <- Hf at 1; symmetry; apply firstn_skipn|].
    intros En. apply (f_equal (@length Z)) in En. rewrite skipn_length in En. unfold len in Hlt. cbn in En. lia. }
  destruct Hpre as (e & -> & Hne). rewrite <- app_assoc in E. apply app_inv_head in E. rewrite app_assoc in E. apply app_inv_tail in E.
  destruct (aligned_tail _ _ Hal Hne) as (e' & He').
  destruct (fm_suffix lab ok Hdf Hinj A2 A e HA2 HA (eq_sym E) (or_intror (ex_intro _ e' He'))) as (A1 & HA1 & Hfm).
  destruct (exists_last (l := A1)) as (A1' & m & ->).
  { intros ->. cbn in Hfm. contradiction. }
  exists A1', m. split; [exact HA1|]. rewrite Hfm. unfold fm. rewrite flat_map_app. cbn [flat_map]. rewrite app_nil_r, <- ?app_assoc. reflexivity.
Qed.

Theorem maximal4_longest pre os pre2 os2 : aligned pre -> Forall byte os -> maximal4 pre os ->
  aligned pre2 -> Forall byte os2 -> len os2 <= 4 -> pre ++ canon4 os = pre2 ++ canon4 os2 -> len pre <= len pre2.
Proof.
  intros Hal Hb Hmax Hal2 Hb2 Hl2 E. destruct (Z.le_gt_cases (len pre) (len pre2)) as [|Hlt]; [assumption|exfalso].
  rewrite !canon4_fm in E.
  destruct (longer_decomp itoa byte suffix4_nodot pre (rev os) pre2 (rev os2) itoa_nodot itoa_inj E Hal
              ltac:(apply Forall_rev; exact Hb) ltac:(apply Forall_rev; exact Hb2) Hlt) as (A1 & m & HA & Hpre).
  assert (Hlen : len os2 = len A1 + 1 + len os).
  { apply (f_equal (@length Z)) in HA. rewrite !app_length, !rev_length in HA. cbn [length] in HA. unfold len. lia. }
  assert (Hm : byte m).
  { assert (Hin : In m (rev os2)) by (rewrite HA; apply in_or_app; left; apply in_or_app; right; left; reflexivity).
    apply in_rev in Hin. rewrite Forall_forall in Hb2. apply Hb2. exact Hin. }
  pose proof (len_nonneg A1). destruct Hmax as [H4|[->|(q & Hq & Hnl)]].
  - lia.
  - symmetry in Hpre. apply app_eq_nil in Hpre as [_ Hpre]. apply app_eq_nil in Hpre as [_ Hpre]. destruct (itoa m); discriminate.
  - rewrite Hq in Hpre. replace (pre2 ++ fm itoa A1 ++ itoa m ++ [46]) with ((pre2 ++ fm itoa A1 ++ itoa m) ++ [46]) in Hpre
      by (rewrite <- !app_assoc; reflexivity).
    apply app_inj_tail in Hpre as [-> _]. rewrite app_assoc in Hnl.
    rewrite last_label_aligned in Hnl; [|apply aligned_app_fm; exact Hal2|apply itoa_nodot; exact Hm].
    rewrite itoa_label in Hnl by exact Hm. discriminate.
Qed.

Theorem maximal6_longest pre ns pre2 ns2 : aligned pre -> Forall nibble ns -> maximal6 pre ns ->
  aligned pre2 -> Forall nibble ns2 -> len ns2 <= 32 -> pre ++ canon6n ns = pre2 ++ canon6n ns2 -> len pre <= len pre2.
Proof.
  intros Hal Hn Hmax Hal2 Hn2 Hl2 E. destruct (Z.le_gt_cases (len pre) (len pre2)) as [|Hlt]; [assumption|exfalso].
  rewrite !canon6n_fm in E.
  assert (Hdf : forall b, nibble b -> Forall (fun c => c <> 46) [hexdigit b]).
  { intros b Hb. unfold nibble in Hb. constructor; [apply hexdigit_nodot; lia|constructor]. }
  destruct (longer_decomp (fun n => [hexdigit n]) nibble suffix6_nodot pre (rev ns) pre2 (rev ns2) Hdf hexlab_inj E Hal
              ltac:(apply Forall_rev; exact Hn) ltac:(apply Forall_rev; exact Hn2) Hlt) as (A1 & m & HA & Hpre).
  assert (Hlen : len ns2 = len A1 + 1 + len ns).
  { apply (f_equal (@length Z)) in HA. rewrite !app_length, !rev_length in HA. cbn [length] in HA. unfold len. lia. }
  assert (Hm : nibble m).
  { assert (Hin : In m (rev ns2)) by (rewrite HA; apply in_or_app; left; apply in_or_app; right; left; reflexivity).
    apply in_rev in Hin. rewrite Forall_forall in Hn2. apply Hn2. exact Hin. }
  pose proof (len_nonneg A1). destruct Hmax as [H32|[->|(q & Hq & Hnl)]].
  - lia.
  - symmetry in Hpre. apply app_eq_nil in Hpre as [_ Hpre]. apply app_eq_nil in Hpre as [_ Hpre]. discriminate.
  - rewrite Hq in Hpre. replace (pre2 ++ fm (fun n => [hexdigit n]) A1 ++ [hexdigit m] ++ [46]) with ((pre2 ++ fm (fun n => [hexdigit n]) A1 ++ [hexdigit m]) ++ [46]) in Hpre
      by (rewrite <- !app_assoc; reflexivity).
    apply app_inj_tail in Hpre as [-> _]. apply Hnl. exists (pre2 ++ fm (fun n => [hexdigit n]) A1), (hexdigit m).
    split; [rewrite <- app_assoc; reflexivity|]. split; [apply aligned_app_fm; exact Hal2|].
    unfold nibble in Hm. rewrite from_hex_of_hexdigit by exact Hm. lia.
Qed.

(* ================= success of ExtractReversedAddr, exactly ================= *)

Definition has_aligned_root (domain : gostring) : Prop :=
  exists pre root, (root = suffix4_nodot \/ root = suffix6_nodot) /\ domain = pre ++ root /\ aligned pre.

Lemma extracted_root domain ip bits : extracted domain ip bits -> has_aligned_root domain.
Proof.
  intros [(pre & os & -> & Hal & _)|(pre & ns & -> & Hal & _)].
  - exists (pre ++ fm itoa (rev os)), suffix4_nodot. split; [left; reflexivity|]. split; [rewrite canon4_fm, app_assoc; reflexivity|].
    apply aligned_app_fm. exact Hal.
  - exists (pre ++ fm (fun n => [hexdigit n]) (rev ns)), suffix6_nodot. split; [right; reflexivity|]. split; [rewrite canon6n_fm, app_assoc; reflexivity|].
    apply aligned_app_fm. exact Hal.
Qed.

Theorem extract_iff s : Forall byte s ->
  (exists ip bits, extract_reversed_addr s (Some (trim_dot s)) = Ret (Ok (ip, bits))) <->
  name_okb domlabelb (trim_dot s) = true /\ has_aligned_root (to_lower_ascii (trim_dot s)).
Proof.
  intros Hs. split.
  - intros (ip & bits & H).
    assert (Hok : name_okb domlabelb (trim_dot s) = true) by (rewrite extract_unfold in H; apply validate_arpa_ok_inv in H; exact H).
    split; [exact Hok|]. apply (extracted_root _ ip bits). apply (extract_sound s (Some (trim_dot s))); [exact Hs| |exact H].
    apply name_ok_no_leading_dot. exact Hok.
  - intros (Hok & pre & root & Hroot & Hdom & Hal). apply (extract_succeeds s pre root); assumption.
Qed.

Lemma is_ipv4_label_iff lab : is_ipv4_label lab = true <-> exists v, byte v /\ lab = itoa v.
Proof. split; [apply is_ipv4_label_inv|]. intros (v & Hv & ->). apply itoa_label. exact Hv. Qed.

Lemma octet_label v : 0 <= v < 256 -> is_ipv4_label (itoa v) = true /\ parse_uint8 (itoa v) = Some v.
Proof. intros H. split; [apply itoa_label|apply itoa_uint8]; exact H. Qed.
