(* Proofs/IoUtilProofs.v — lemmas about Model/IoUtil.v (C15). *)
From Verif Require Import Base.GoPrim Model.IoUtil.

Definition sum_n (obs : list rd_obs) : Z := fold_right (fun o acc => ob_n o + acc) 0 obs.

Lemma sum_n_app a b : sum_n (a ++ b) = sum_n a + sum_n b.
Proof. induction a as [|o a IH]; simpl; lia. Qed.

Lemma u64_id x : 0 <= x < two64 -> u64 x = x.
Proof. intro H. unfold u64. apply Z.mod_small. exact H. Qed.

Section ReaderProofs.
  Variable R : Type.
  Variable rstep : R -> Z -> R * (Z * gostring * Z).

  (* The io.Reader contract: a non-negative count never exceeds the buffer
     length and is the number of bytes written. *)
  Definition reader_contract : Prop :=
    forall r l r' k data e, 0 <= l -> rstep r l = (r', (k, data, e)) ->
      k <= l /\ (0 <= k -> len data = k).

  Hypothesis contract : reader_contract.

  Notation lr_read := (lr_read R rstep).
  Notation lr_run := (lr_run R rstep).

  Fixpoint lr_after (st : lrst R) (plens : list Z) : lrst R :=
    match plens with
    | [] => st
    | p :: ps => lr_after (fst (lr_read st p)) ps
    end.

  Lemma lr_run_app st a b :
    lr_run st (a ++ b) = lr_run st a ++ lr_run (lr_after st a) b.
  Proof.
    revert st; induction a as [|p a IH]; intros st; simpl; [reflexivity|].
    destruct (lr_read st p) as [st' o]. simpl. rewrite IH. reflexivity.
  Qed.

  Lemma lr_run_length st plens : length (lr_run st plens) = length plens.
  Proof.
    revert st; induction plens as [|p ps IH]; intros st; simpl; [reflexivity|].
    destruct (lr_read st p) as [st' o]. simpl. rewrite IH. reflexivity.
  Qed.

  (* one step: what it does to the remaining count *)
  Lemma lr_read_step st p st' o :
    0 <= p -> 0 <= lr_n st < two64 ->
    lr_read st p = (st', o) ->
    lr_limit st' = lr_limit st /\
    lr_n st' = lr_n st - ob_n o /\ 0 <= ob_n o /\ 0 <= lr_n st' /\
    (forall l, ob_req o = Some l -> 0 <= l <= lr_n st /\ l <= p) /\
    (lr_n st = 0 -> o = mk_rd_obs None 0 [] (ELimit (lr_limit st)) /\ st' = st) /\
    len (ob_data o) = ob_n o.
  Proof.
    intros Hp Hn. unfold IoUtil.lr_read.
    destruct (lr_n st =? 0) eqn:E0.
    - intros H; inversion H; subst; clear H. simpl. apply Z.eqb_eq in E0.
      repeat split; try lia; intros; try discriminate; lia.
    - apply Z.eqb_neq in E0.
      destruct (rstep (lr_r st) (Z.min p (lr_n st))) as [r' [[k data] e]] eqn:Er.
      assert (Hl : 0 <= Z.min p (lr_n st)) by lia.
      destruct (contract _ _ _ _ _ _ Hl Er) as [Hk Hd].
      destruct (k <? 0) eqn:Ek.
      + intros H; inversion H; subst; clear H. simpl.
        repeat split; intros; try lia;
          repeat match goal with H : Some _ = Some _ |- _ => inversion H; clear H end; lia.
      + apply Z.ltb_ge in Ek.
        intros H; inversion H; subst; clear H. simpl.
        rewrite u64_id by lia.
        repeat split; intros; try lia;
          repeat match goal with H : Some _ = Some _ |- _ => inversion H; clear H end; try lia; auto.
  Qed.

  Lemma lr_after_state st plens :
    Forall (fun p => 0 <= p) plens -> 0 <= lr_n st < two64 ->
    lr_limit (lr_after st plens) = lr_limit st /\
    lr_n (lr_after st plens) = lr_n st - sum_n (lr_run st plens) /\
    0 <= lr_n (lr_after st plens) /\ 0 <= sum_n (lr_run st plens).
  Proof.
    revert st; induction plens as [|p ps IH]; intros st Hps Hn; simpl.
    - repeat split; lia.
    - inversion Hps as [|? ? Hp Hps']; subst.
      destruct (lr_read st p) as [st' o] eqn:E. simpl.
      destruct (lr_read_step _ _ _ _ Hp Hn E) as (Hl & Hn' & Ho & Hn'' & _).
      destruct (IH st' Hps' ltac:(lia)) as (IH1 & IH2 & IH3 & IH4).
      repeat split; try lia; congruence.
  Qed.

  (* requests: before each underlying call, delivered + requested <= remaining at start *)
  Lemma lr_requests st plens :
    Forall (fun p => 0 <= p) plens -> 0 <= lr_n st < two64 ->
    forall pre o post l, lr_run st plens = pre ++ o :: post -> ob_req o = Some l ->
      0 <= l /\ sum_n pre + l <= lr_n st.
  Proof.
    revert st; induction plens as [|p ps IH]; intros st Hps Hn pre o post l Hrun Hreq; simpl in Hrun.
    - destruct pre; discriminate.
    - inversion Hps as [|? ? Hp Hps']; subst.
      destruct (lr_read st p) as [st' o0] eqn:E.
      destruct (lr_read_step _ _ _ _ Hp Hn E) as (Hl & Hn' & Ho & Hn'' & Hq & _).
      destruct pre as [|o1 pre']; simpl in Hrun; inversion Hrun; subst.
      + destruct (Hq _ Hreq). simpl. lia.
      + match goal with H : _ = pre' ++ o :: post |- _ =>
          destruct (IH st' Hps' ltac:(lia) _ _ _ _ H Hreq) as [HA HB] end.
        simpl. lia.
  Qed.

  (* after the limit: when nothing remains every Read is the limit error, no call *)
  Lemma lr_exhausted st plens :
    lr_n st = 0 ->
    Forall (fun o => o = mk_rd_obs None 0 [] (ELimit (lr_limit st))) (lr_run st plens).
  Proof.
    intros H0. induction plens as [|p ps IH]; simpl; [constructor|].
    unfold IoUtil.lr_read. rewrite H0. simpl. constructor; [reflexivity|]. exact IH.
  Qed.

  (* pass-through: the Reads that reached the wrapped reader report exactly its answers *)
  Definition conv_answer (a : Z * gostring * Z) : Z * gostring * rd_err :=
    let '(k, data, e) := a in
    if k <? 0 then (0, [], EBadLen k) else (k, data, err_of_code e).

  Definition requests (obs : list rd_obs) : list Z :=
    flat_map (fun o => match ob_req o with Some l => [l] | None => [] end) obs.

  Definition answered (obs : list rd_obs) : list (Z * gostring * rd_err) :=
    flat_map (fun o => match ob_req o with
                       | Some _ => [(ob_n o, ob_data o, ob_err o)] | None => [] end) obs.

  Lemma lr_passthrough st plens :
    answered (lr_run st plens) =
    map conv_answer (rtrace R rstep (lr_r st) (requests (lr_run st plens))).
  Proof.
    revert st; induction plens as [|p ps IH]; intros st; simpl; [reflexivity|].
    unfold IoUtil.lr_read.
    destruct (lr_n st =? 0) eqn:E0.
    - simpl. apply IH.
    - destruct (rstep (lr_r st) (Z.min p (lr_n st))) as [r' [[k data] e]] eqn:Er.
      destruct (k <? 0) eqn:Ek; simpl; rewrite Er; simpl; rewrite Ek; f_equal;
        match goal with |- context [lr_run ?s ps] => apply (IH s) end.
  Qed.

  (* Reads that did not reach the wrapped reader deliver nothing *)
  Lemma lr_unanswered st plens :
    Forall (fun o => ob_req o = None -> ob_n o = 0 /\ ob_data o = []) (lr_run st plens).
  Proof.
    revert st; induction plens as [|p ps IH]; intros st; simpl; [constructor|].
    destruct (lr_read st p) as [st' o] eqn:E. constructor; [|apply IH].
    unfold IoUtil.lr_read in E.
    destruct (lr_n st =? 0).
    - inversion E; subst; simpl; auto.
    - destruct (rstep (lr_r st) (Z.min p (lr_n st))) as [r' [[k data] e]].
      destruct (k <? 0); inversion E; subst; simpl; discriminate.
  Qed.

  Lemma lr_data_concat st plens :
    concat (map ob_data (lr_run st plens)) =
    concat (map (fun a => snd (fst a)) (answered (lr_run st plens))).
  Proof.
    pose proof (lr_unanswered st plens) as H.
    induction (lr_run st plens) as [|o obs IH]; simpl; [reflexivity|].
    inversion H as [|? ? Ho Hobs]; subst.
    unfold answered in *. simpl.
    destruct (ob_req o) eqn:Eq; simpl.
    - f_equal. apply IH. exact Hobs.
    - destruct (Ho eq_refl) as [_ Hd]. rewrite Hd. simpl. apply IH. exact Hobs.
  Qed.

  Lemma lr_data_len st plens :
    Forall (fun p => 0 <= p) plens -> 0 <= lr_n st < two64 ->
    len (concat (map ob_data (lr_run st plens))) = sum_n (lr_run st plens).
  Proof.
    revert st; induction plens as [|p ps IH]; intros st Hps Hn; simpl; [reflexivity|].
    inversion Hps as [|? ? Hp Hps']; subst.
    destruct (lr_read st p) as [st' o] eqn:E.
    destruct (lr_read_step _ _ _ _ Hp Hn E) as (Hl & Hn' & Ho & Hn'' & Hq & _ & Hd).
    simpl. rewrite len_app, Hd, (IH st' Hps') by lia. reflexivity.
  Qed.

  (* statements about a fresh LimitReader(r, n) *)
  Lemma fresh_requests r n plens :
    0 <= n < two64 -> Forall (fun p => 0 <= p) plens ->
    forall pre o post l,
      lr_run (limit_reader R r n) plens = pre ++ o :: post -> ob_req o = Some l ->
      0 <= l /\ sum_n pre + l <= n.
  Proof. intros Hn Hps. apply lr_requests; [exact Hps | exact Hn]. Qed.

  Lemma fresh_delivered r n plens :
    0 <= n < two64 -> Forall (fun p => 0 <= p) plens ->
    let obs := lr_run (limit_reader R r n) plens in
    len (concat (map ob_data obs)) = sum_n obs /\ 0 <= sum_n obs <= n.
  Proof.
    intros Hn Hps obs. split.
    - apply lr_data_len; [exact Hps | exact Hn].
    - destruct (lr_after_state (limit_reader R r n) plens Hps Hn) as (_ & H2 & H3 & H4).
      simpl in H2. unfold obs. lia.
  Qed.

  Lemma fresh_limit r n a b :
    0 <= n < two64 -> Forall (fun p => 0 <= p) a ->
    sum_n (lr_run (limit_reader R r n) a) = n ->
    exists post, lr_run (limit_reader R r n) (a ++ b) = lr_run (limit_reader R r n) a ++ post /\
      length post = length b /\
      Forall (fun o => o = mk_rd_obs None 0 [] (ELimit n)) post.
  Proof.
    intros Hn Ha Hsum. rewrite lr_run_app. eexists. split; [reflexivity|].
    split; [apply lr_run_length|].
    destruct (lr_after_state (limit_reader R r n) a Ha Hn) as (H1 & H2 & _).
    simpl in H1, H2.
    pose proof (lr_exhausted (lr_after (limit_reader R r n) a) b ltac:(lia)) as Hx.
    rewrite H1 in Hx. exact Hx.
  Qed.

  Lemma fresh_zero r plens :
    Forall (fun o => o = mk_rd_obs None 0 [] (ELimit 0)) (lr_run (limit_reader R r 0) plens).
  Proof. apply (lr_exhausted (limit_reader R r 0)). reflexivity. Qed.
End ReaderProofs.

(* ---- the stream reader instance ---- *)

Lemma stream_contract : reader_contract _ stream_rstep.
Proof.
  unfold reader_contract, stream_rstep. intros [stream script] l r' k data e Hl.
  pose proof (len_nonneg stream) as Hs.
  destruct script as [|[cap e0] script'].
  - intros H; inversion H; subst; clear H.
    rewrite len_firstn. rewrite Z2Nat.id by lia. split; lia.
  - intros H; inversion H; subst; clear H.
    rewrite len_firstn. rewrite Z2Nat.id by lia. split; lia.
Qed.

Definition is_prefix (a b : gostring) : Prop := exists c, b = a ++ c.

Lemma stream_step_shape stream script l :
  exists k script' e,
    stream_rstep (stream, script) l =
      ((skipn k stream, script'), (len (firstn k stream), firstn k stream, e)).
Proof.
  unfold stream_rstep. destruct script as [|[cap e0] script'].
  - do 3 eexists. reflexivity.
  - do 3 eexists. reflexivity.
Qed.

Lemma stream_trace_prefix stream script ls :
  is_prefix (concat (map (fun a => snd (fst (conv_answer a)))
                         (rtrace _ stream_rstep (stream, script) ls))) stream.
Proof.
  revert stream script; induction ls as [|l ls IH]; intros stream script.
  - exists stream. reflexivity.
  - cbn [rtrace].
    destruct (stream_step_shape stream script l) as (k & script' & e & Hs).
    rewrite Hs. cbn [map concat conv_answer].
    destruct (len (firstn k stream) <? 0) eqn:E.
    + pose proof (len_nonneg (firstn k stream)). lia.
    + cbn [fst snd]. destruct (IH (skipn k stream) script') as [c Hc].
      exists c. transitivity (firstn k stream ++ skipn k stream).
      * symmetry. apply firstn_skipn.
      * rewrite <- app_assoc. f_equal. exact Hc.
Qed.

(* ---- TruncatedWriter ---- *)

Section WriterProofs.
  Variable W : Type.
  Variable wstep : W -> gostring -> W * Z.

  Notation tw_write := (tw_write W wstep).
  Notation tw_run := (tw_run W wstep).

  Definition passed (obs : list wr_obs) : gostring :=
    concat (flat_map (fun o => match wo_passed o with Some c => [c] | None => [] end) obs).

  Lemma firstn_app_le {A} (a b : list A) n :
    (n <= length a)%nat -> firstn n (a ++ b) = firstn n a.
  Proof. intros H. rewrite firstn_app. replace (n - length a)%nat with 0%nat by lia.
         simpl. apply app_nil_r. Qed.

  (* generalised: a writer that has already forwarded [off] bytes of [done] *)
  Lemma tw_run_spec st bs :
    0 <= tw_offset st <= tw_limit st -> tw_limit st < two64 ->
    passed (tw_run st bs) =
      firstn (Z.to_nat (tw_limit st - tw_offset st)) (concat bs) /\
    Forall2 (fun o b => wo_n o = len b) (tw_run st bs) bs.
  Proof.
    revert st; induction bs as [|b bs IH]; intros st Hoff Hlim; simpl.
    - split; [destruct (Z.to_nat _); reflexivity | constructor].
    - unfold IoUtil.tw_write.
      rewrite (u64_id (tw_limit st - tw_offset st)) by lia.
      pose proof (len_nonneg b) as Hb.
      destruct (tw_limit st - tw_offset st =? 0) eqn:E0.
      + apply Z.eqb_eq in E0.
        destruct (IH st Hoff Hlim) as [IH1 IH2].
        split.
        * unfold passed in *. simpl. rewrite IH1. rewrite E0. simpl. reflexivity.
        * constructor; [reflexivity | exact IH2].
      + apply Z.eqb_neq in E0.
        set (i := Z.min (len b) (tw_limit st - tw_offset st)).
        destruct (wstep (tw_w st) (firstn (Z.to_nat i) b)) as [w' e] eqn:Ew.
        assert (Hi : 0 <= i <= tw_limit st - tw_offset st) by (unfold i; lia).
        match goal with |- context [IoUtil.tw_run W wstep ?s bs] => set (st' := s) end.
        assert (Hst' : tw_offset st' = tw_offset st + i /\ tw_limit st' = tw_limit st).
        { unfold st'. simpl. rewrite u64_id by lia. auto. }
        destruct Hst' as [Ho' Hl'].
        destruct (IH st' ltac:(lia) ltac:(lia)) as [IH1 IH2].
        split.
        * unfold passed in *. simpl. rewrite IH1. rewrite Ho', Hl'.
          destruct (Z.le_gt_cases (len b) (tw_limit st - tw_offset st)) as [Hle|Hgt].
          -- (* whole chunk fits *)
             assert (i = len b) by (unfold i; lia).
             replace (Z.to_nat i) with (length b) by (unfold len in *; lia).
             rewrite firstn_all.
             replace (Z.to_nat (tw_limit st - tw_offset st))
               with (length b + Z.to_nat (tw_limit st - (tw_offset st + i)))%nat
               by (unfold len in *; lia).
             rewrite firstn_app_2. reflexivity.
          -- (* chunk is cut *)
             assert (i = tw_limit st - tw_offset st) by (unfold i; lia).
             replace (tw_limit st - (tw_offset st + i)) with 0 by lia.
             simpl. rewrite app_nil_r.
             rewrite firstn_app_le by (unfold len in *; lia). congruence.
        * constructor; [reflexivity | exact IH2].
  Qed.

  (* each Write returns len(b) and the wrapped writer's error (nil if not called) *)
  Lemma tw_write_result st b st' o :
    tw_write st b = (st', o) ->
    wo_n o = len b /\
    match wo_passed o with
    | None => wo_err o = 0 /\ st' = st
    | Some c => wo_err o = snd (wstep (tw_w st) c) /\ exists k, c = firstn k b
    end.
  Proof.
    unfold IoUtil.tw_write.
    destruct (u64 (tw_limit st - tw_offset st) =? 0).
    - intros H; inversion H; subst; simpl; auto.
    - destruct (wstep _ _) as [w' e] eqn:Ew.
      intros H; inversion H; subst; simpl. rewrite Ew. simpl. split; [reflexivity|].
      split; [reflexivity|]. eexists; reflexivity.
  Qed.
End WriterProofs.

Lemma stream_prefix stream script n plens :
  0 <= n < two64 -> Forall (fun p => 0 <= p) plens ->
  let obs := lr_run _ stream_rstep (limit_reader _ (stream, script) n) plens in
  is_prefix (concat (map ob_data obs)) stream /\ len (concat (map ob_data obs)) <= n.
Proof.
  intros Hn Hps obs. split.
  - unfold obs. rewrite lr_data_concat, lr_passthrough. rewrite map_map.
    apply stream_trace_prefix.
  - destruct (fresh_delivered _ _ stream_contract (stream, script) n plens Hn Hps) as [H1 H2].
    fold obs in H1, H2. lia.
Qed.

Lemma fresh_writer W wstep (w : W) limit bs :
  0 <= limit < two64 ->
  let obs := tw_run W wstep (new_trunc_writer W w limit) bs in
  passed obs = firstn (Z.to_nat (Z.min (len (concat bs)) limit)) (concat bs) /\
  Forall2 (fun o b => wo_n o = len b) obs bs.
Proof.
  intros Hl obs.
  destruct (tw_run_spec W wstep (new_trunc_writer W w limit) bs) as [H1 H2]; simpl; try lia.
  split; [|exact H2]. unfold obs. rewrite H1. simpl. rewrite Z.sub_0_r.
  destruct (Z.le_gt_cases (len (concat bs)) limit) as [Hle|Hgt].
  - rewrite Z.min_l by lia. rewrite !firstn_all2; unfold len in *; try lia. reflexivity.
  - rewrite Z.min_r by lia. reflexivity.
Qed.
