(* Proofs/ReversedRoundtrip.v — IPFromReversedAddr maps the canonical PTR name of
   every IPv4 / IPv6 address, in any letter case and with or without one trailing
   dot, back to that address (C04, the round-trip direction). *)
From Verif Require Import Base.GoPrim Base.Strings Base.ByteFm Proofs.PrefixBits Gen.Consts Gen.BytePreds Std.Netip Std.Net
  Model.Addr Model.Ip Model.Reversed Proofs.AddrProofs Proofs.BufioProofs Proofs.ReversedBasics Proofs.ReversedTotal.

Definition byte (x : Z) : Prop := 0 <= x < 256.

(* ================= decimal octets ================= *)

Definition itoa_shape_ok (x : Z) : bool :=
  if x <? 10 then eqb_str (itoa x) [48 + x]
  else if x <? 100 then eqb_str (itoa x) [48 + x / 10; 48 + x mod 10]
  else eqb_str (itoa x) [48 + x / 100; 48 + (x / 10) mod 10; 48 + x mod 10].

Lemma itoa_shape_sweep : forallb itoa_shape_ok bytes256 = true.
Proof. vm_compute. reflexivity. Qed.

Lemma itoa_shape x : byte x ->
  (x < 10 /\ itoa x = [48 + x]) \/
  (10 <= x < 100 /\ itoa x = [48 + x / 10; 48 + x mod 10]) \/
  (100 <= x /\ itoa x = [48 + x / 100; 48 + (x / 10) mod 10; 48 + x mod 10]).
Proof.
  intros Hx. pose proof itoa_shape_sweep as S. rewrite forallb_forall in S.
  specialize (S x (in_bytes256' x Hx)). unfold itoa_shape_ok in S.
  destruct (Z.ltb_spec x 10); [left; split; [lia|apply eqb_str_spec; exact S]|].
  destruct (Z.ltb_spec x 100); [right; left; split; [lia|apply eqb_str_spec; exact S]|].
  right. right. split; [lia|apply eqb_str_spec; exact S].
Qed.

Ltac Zify.zify_post_hook ::= Z.div_mod_to_equations.

Lemma digit_facts n : 0 <= n < 10 -> is_digit (48 + n) = true /\ (48 + n =? 46) = false /\ 48 + n - 48 = n.
Proof.
  intros H. unfold is_digit. repeat split; try lia;
    try (apply andb_true_iff; split; apply Z.leb_le; lia); try (apply Z.eqb_neq; lia).
Qed.

(* parseIPv4Fields consumes one decimal octet *)
Lemma parse_v4_octet x t i0 pos acc : byte x ->
  parse_v4_fields (itoa x ++ t) i0 false 0 pos 0 acc = parse_v4_fields t false false x pos (len (itoa x)) acc.
Proof.
  intros Hx. destruct (itoa_shape x Hx) as [[H ->]|[[H ->]|[H ->]]]; unfold byte in Hx.
  - destruct (digit_facts x ltac:(lia)) as (D1 & D2 & D3).
    cbn [app parse_v4_fields]. rewrite D1. cbn [Z.eqb andb]. rewrite D3.
    destruct (255 <? 0 * 10 + x) eqn:E; [apply Z.ltb_lt in E; lia|]. f_equal; lia.
  - destruct (digit_facts (x / 10) ltac:(lia)) as (D1 & D2 & D3). destruct (digit_facts (x mod 10) ltac:(lia)) as (E1 & E2 & E3).
    cbn [app parse_v4_fields]. rewrite D1. cbn [Z.eqb andb]. rewrite D3.
    destruct (255 <? 0 * 10 + x / 10) eqn:E; [apply Z.ltb_lt in E; lia|].
    rewrite E1. change (0 + 1 =? 1) with true. cbn [andb].
    destruct (0 * 10 + x / 10 =? 0) eqn:Ez; [apply Z.eqb_eq in Ez; lia|]. rewrite E3.
    destruct (255 <? (0 * 10 + x / 10) * 10 + x mod 10) eqn:E'; [apply Z.ltb_lt in E'; lia|].
    f_equal; try lia; reflexivity.
  - assert (Hx2 : x <= 255) by (unfold byte in Hx; lia).
    destruct (digit_facts (x / 100) ltac:(lia)) as (D1 & D2 & D3).
    destruct (digit_facts ((x / 10) mod 10) ltac:(lia)) as (E1 & E2 & E3).
    destruct (digit_facts (x mod 10) ltac:(lia)) as (F1 & F2 & F3).
    cbn [app parse_v4_fields]. rewrite D1. cbn [Z.eqb andb]. rewrite D3.
    destruct (255 <? 0 * 10 + x / 100) eqn:E; [apply Z.ltb_lt in E; lia|].
    rewrite E1. change (0 + 1 =? 1) with true. cbn [andb].
    destruct (0 * 10 + x / 100 =? 0) eqn:Ez; [apply Z.eqb_eq in Ez; lia|]. rewrite E3.
    destruct (255 <? (0 * 10 + x / 100) * 10 + (x / 10) mod 10) eqn:E'; [apply Z.ltb_lt in E'; lia|].
    rewrite F1. change (0 + 1 + 1 =? 1) with false. cbn [andb]. rewrite F3.
    destruct (255 <? ((0 * 10 + x / 100) * 10 + (x / 10) mod 10) * 10 + x mod 10) eqn:E''; [apply Z.ltb_lt in E''; lia|].
    f_equal; try lia; reflexivity.
Qed.

Lemma itoa_nonempty x : byte x -> exists c t, itoa x = c :: t /\ is_digit c = true.
Proof.
  intros Hx. destruct (itoa_shape x Hx) as [[H ->]|[[H ->]|[H ->]]]; unfold byte in Hx; eexists _, _; (split; [reflexivity|]).
  - apply (digit_facts x); lia.
  - apply (digit_facts (x / 10)); lia.
  - unfold byte in Hx. apply (digit_facts (x / 100)); lia.
Qed.

Lemma itoa_digits x : byte x -> Forall (fun c => is_digit c = true) (itoa x) /\ 1 <= len (itoa x) <= 3.
Proof.
  intros Hx. unfold byte in Hx. destruct (itoa_shape x Hx) as [[H ->]|[[H ->]|[H ->]]].
  - split; [repeat constructor; apply (digit_facts x); lia|cbn; lia].
  - split; [repeat constructor; [apply (digit_facts (x / 10))|apply (digit_facts (x mod 10))]; lia|cbn; lia].
  - split; [repeat constructor; [apply (digit_facts (x / 100))|apply (digit_facts ((x / 10) mod 10))|apply (digit_facts (x mod 10))]; lia|cbn; lia].
Qed.

(* a dot after an octet, with more text to come *)
Lemma parse_v4_dot t val pos dig acc : t <> [] -> pos <> 3 ->
  parse_v4_fields (46 :: t) false false val pos dig acc = parse_v4_fields t false true 0 (pos + 1) 0 (val :: acc).
Proof.
  intros Ht Hp. cbn [parse_v4_fields]. change (is_digit 46) with false. cbv iota. rewrite Z.eqb_refl.
  destruct t; [contradiction|]. cbn [orb]. apply Z.eqb_neq in Hp. rewrite Hp. reflexivity.
Qed.

Definition dotted4 (a b c d : Z) : gostring := itoa a ++ 46 :: itoa b ++ 46 :: itoa c ++ 46 :: itoa d.

Lemma parse_ipv4_dotted a b c d : byte a -> byte b -> byte c -> byte d ->
  parse_ipv4 (dotted4 a b c d) = Some [a; b; c; d].
Proof.
  intros Ha Hb Hc Hd. unfold parse_ipv4, dotted4.
  destruct (itoa_nonempty b Hb) as (cb & tb & Eb & _). destruct (itoa_nonempty c Hc) as (cc & tc & Ec & _).
  destruct (itoa_nonempty d Hd) as (cd & td & Ed & _).
  rewrite parse_v4_octet by exact Ha.
  rewrite parse_v4_dot by (try lia; rewrite Eb; discriminate).
  (* after a dot: prevdot = true; the octet lemma is stated for prevdot = false, but a digit resets it *)
  assert (Hoct : forall x t pos acc, byte x ->
            parse_v4_fields (itoa x ++ t) false true 0 pos 0 acc = parse_v4_fields t false false x pos (len (itoa x)) acc).
  { intros x t pos acc Hx. rewrite <- (parse_v4_octet x t false pos acc Hx).
    destruct (itoa_nonempty x Hx) as (c0 & t0 & E0 & Hd0). rewrite E0. cbn [app parse_v4_fields]. rewrite Hd0. reflexivity. }
  rewrite Hoct by exact Hb. rewrite parse_v4_dot by (try lia; rewrite Ec; discriminate).
  rewrite Hoct by exact Hc. rewrite parse_v4_dot by (try lia; rewrite Ed; discriminate).
  rewrite <- (app_nil_r (itoa d)). rewrite Hoct by exact Hd. cbn [parse_v4_fields]. reflexivity.
Qed.

Lemma first_special_digits : forall ds t, Forall (fun c => is_digit c = true) ds ->
  first_special (ds ++ 46 :: t) = 46.
Proof.
  induction 1 as [|c ds Hc _ IH]; [reflexivity|]. cbn [app first_special].
  unfold is_digit in Hc. apply andb_true_iff in Hc as [H1 H2]. apply Z.leb_le in H1, H2.
  destruct (Z.eqb_spec c 46); [lia|]. destruct (Z.eqb_spec c 58); [lia|]. destruct (Z.eqb_spec c 37); [lia|]. exact IH.
Qed.

Lemma parse_addr_dotted a b c d : byte a -> byte b -> byte c -> byte d ->
  parse_addr (dotted4 a b c d) = Some (P4 [a; b; c; d]).
Proof.
  intros Ha Hb Hc Hd. unfold parse_addr.
  assert (Hf : first_special (dotted4 a b c d) = 46) by (unfold dotted4; apply first_special_digits; apply (itoa_digits a Ha)).
  rewrite Hf. rewrite Z.eqb_refl. rewrite parse_ipv4_dotted by assumption. reflexivity.
Qed.

(* ================= names and case ================= *)

Lemma to_lower_idem_digit_dot s : Forall (fun c => is_upper c = false) s -> to_lower_ascii s = s.
Proof.
  induction 1 as [|c s Hc _ IH]; [reflexivity|]. cbn [to_lower_ascii map]. unfold to_lower_ascii_byte. rewrite Hc.
  f_equal. exact IH.
Qed.

Lemma split_on_map_lower : forall s, split_on dot (to_lower_ascii s) = map to_lower_ascii (split_on dot s).
Proof.
  assert (Hne : forall c, (to_lower_ascii_byte c =? dot) = (c =? dot)).
  { intros c. unfold to_lower_ascii_byte, is_upper, dot. destruct ((65 <=? c) && (c <=? 90)) eqn:E; [|reflexivity].
    apply andb_true_iff in E as [E1 E2]. apply Z.leb_le in E1, E2.
    destruct (Z.eqb_spec (c + 32) 46); [lia|]. destruct (Z.eqb_spec c 46); [lia|reflexivity]. }
  induction s as [|c t IH]; [reflexivity|].
  cbn [to_lower_ascii map]. rewrite !split_on_cons. rewrite Hne. fold (to_lower_ascii t). rewrite IH.
  destruct (c =? dot); [reflexivity|].
  pose proof (split_on_nonempty dot t). destruct (split_on dot t); [contradiction|reflexivity].
Qed.

Lemma lod_lower c : lod (to_lower_ascii_byte c) = lod c.
Proof.
  unfold to_lower_ascii_byte. destruct (is_upper c) eqn:E; [|reflexivity].
  unfold lod, is_lower, is_upper, is_digit in *. apply andb_true_iff in E as [E1 E2]. apply Z.leb_le in E1, E2.
  repeat match goal with |- context [?a <=? ?b] => destruct (Z.leb_spec a b); try lia end; reflexivity.
Qed.

Lemma ldh_lower c : ldh (to_lower_ascii_byte c) = ldh c.
Proof.
  unfold ldh. rewrite lod_lower. unfold to_lower_ascii_byte. destruct (is_upper c) eqn:E; [|reflexivity].
  unfold is_upper in E. apply andb_true_iff in E as [E1 E2]. apply Z.leb_le in E1, E2.
  destruct (Z.eqb_spec (c + 32) 45); [lia|]. destruct (Z.eqb_spec c 45); [lia|reflexivity].
Qed.

(* ---- validation does not depend on letter case ---- *)
Lemma removelast_map {A B} (f : A -> B) : forall l, removelast (map f l) = map f (removelast l).
Proof.
  induction l as [|x [|y t] IH]; try reflexivity. cbn [map removelast] in *. rewrite IH. reflexivity.
Qed.

Lemma last_or_map {A B} (f : A -> B) d : forall l, last_or (map f l) (f d) = f (last_or l d).
Proof. induction l as [|x [|y t] IH]; try reflexivity. cbn [map last_or] in *. exact IH. Qed.

Lemma is_digit_lower c : is_digit (to_lower_ascii_byte c) = is_digit c.
Proof.
  unfold to_lower_ascii_byte. destruct (is_upper c) eqn:E; [|reflexivity].
  unfold is_upper, is_digit in *. apply andb_true_iff in E as [E1 E2]. apply Z.leb_le in E1, E2.
  repeat match goal with |- context [?a <=? ?b] => destruct (Z.leb_spec a b); try lia end; reflexivity.
Qed.

Lemma hostlabelb_lower l : hostlabelb (to_lower_ascii l) = hostlabelb l.
Proof.
  unfold hostlabelb. rewrite len_to_lower.
  assert (H1 : hd 0 (to_lower_ascii l) = to_lower_ascii_byte (hd 0 l)) by (destruct l; reflexivity).
  assert (H2 : last_or (to_lower_ascii l) 0 = to_lower_ascii_byte (last_or l 0)).
  { change 0 with (to_lower_ascii_byte 0) at 1. apply last_or_map. }
  rewrite H1, H2, !lod_lower. f_equal. unfold to_lower_ascii. rewrite forallb_map.
  apply forallb_ext_in. intros c _. apply ldh_lower.
Qed.

Lemma has_nondigit_lower l : has_nondigit (to_lower_ascii l) = has_nondigit l.
Proof.
  unfold has_nondigit, to_lower_ascii. induction l as [|c t IH]; [reflexivity|].
  cbn [map existsb]. rewrite is_digit_lower, IH. reflexivity.
Qed.

Lemma name_okb_lower n : name_okb domlabelb (to_lower_ascii n) = name_okb domlabelb n.
Proof.
  unfold name_okb. rewrite len_to_lower, split_on_map_lower, removelast_map.
  assert (Hl : last_or (map to_lower_ascii (split_on dot n)) [] = to_lower_ascii (last_or (split_on dot n) [])).
  { change (@nil Z) with (to_lower_ascii []) at 1. apply last_or_map. }
  rewrite Hl, hostlabelb_lower, has_nondigit_lower. f_equal. f_equal. f_equal.
  rewrite forallb_map. apply forallb_ext_in. intros l _. unfold domlabelb. rewrite len_to_lower. reflexivity.
Qed.

(* ---- the canonical IPv4 name ---- *)
Lemma split_label p rest : Forall (fun x => x <> dot) p -> split_on dot (p ++ dot :: rest) = p :: split_on dot rest.
Proof.
  intros Hp. destruct (split_on_sepfree_app dot p (dot :: rest) Hp) as (h & tl & E1 & E2).
  rewrite split_on_cons, Z.eqb_refl in E1. inversion E1; subst. rewrite E2, app_nil_r. reflexivity.
Qed.

Lemma itoa_nodot x : byte x -> Forall (fun c => c <> dot) (itoa x).
Proof.
  intros Hx. destruct (itoa_digits x Hx) as [H _]. eapply Forall_impl; [|exact H].
  intros c Hc E. subst c. discriminate.
Qed.

Lemma canon4_shape a b c d : canon4 [a; b; c; d] = dotted4 d c b a ++ suffix4.
Proof.
  unfold canon4, dotted4. cbn [rev app flat_map]. rewrite app_nil_r.
  change suffix4 with (46 :: suffix4_nodot). repeat (rewrite <- app_assoc; cbn [app]). reflexivity.
Qed.

Lemma domlabel_itoa x : byte x -> domlabelb (itoa x) = true.
Proof.
  intros Hx. destruct (itoa_digits x Hx) as [_ H]. unfold domlabelb. apply andb_true_iff. split; apply Z.leb_le; lia.
Qed.

Lemma canon4_valid a b c d : byte a -> byte b -> byte c -> byte d -> name_okb domlabelb (canon4 [a; b; c; d]) = true.
Proof.
  intros Ha Hb Hc Hd. rewrite canon4_shape. unfold dotted4, name_okb.
  assert (Hsplit : split_on dot ((itoa d ++ 46 :: itoa c ++ 46 :: itoa b ++ 46 :: itoa a) ++ suffix4)
                   = [itoa d; itoa c; itoa b; itoa a; [105; 110; 45; 97; 100; 100; 114]; [97; 114; 112; 97]]).
  { repeat (rewrite <- app_assoc; cbn [app]). rewrite split_label by (apply itoa_nodot; exact Hd).
    rewrite split_label by (apply itoa_nodot; exact Hc). rewrite split_label by (apply itoa_nodot; exact Hb).
    change suffix4 with (dot :: suffix4_nodot). rewrite split_label by (apply itoa_nodot; exact Ha). reflexivity. }
  rewrite Hsplit. cbn [removelast last_or forallb].
  rewrite !domlabel_itoa by assumption.
  destruct (itoa_digits a Ha) as [_ La]. destruct (itoa_digits b Hb) as [_ Lb].
  destruct (itoa_digits c Hc) as [_ Lc]. destruct (itoa_digits d Hd) as [_ Ld].
  assert (Hlen : len ((itoa d ++ 46 :: itoa c ++ 46 :: itoa b ++ 46 :: itoa a) ++ suffix4) <= 28).
  { repeat (rewrite len_app || rewrite len_cons). change (len suffix4) with 13. lia. }
  assert (Hlen1 : 1 <= len ((itoa d ++ 46 :: itoa c ++ 46 :: itoa b ++ 46 :: itoa a) ++ suffix4)).
  { rewrite len_app. change (len suffix4) with 13. pose proof (len_nonneg (itoa d ++ 46 :: itoa c ++ 46 :: itoa b ++ 46 :: itoa a)). lia. }
  destruct (Z.leb_spec 1 (len ((itoa d ++ 46 :: itoa c ++ 46 :: itoa b ++ 46 :: itoa a) ++ suffix4))); [|lia].
  destruct (Z.leb_spec (len ((itoa d ++ 46 :: itoa c ++ 46 :: itoa b ++ 46 :: itoa a) ++ suffix4)) 253); [|lia].
  reflexivity.
Qed.

Lemma has_prefix_app p s : has_prefix p (p ++ s) = true.
Proof. induction p as [|x p IH]; [reflexivity|]. cbn [app has_prefix]. rewrite Z.eqb_refl, IH. reflexivity. Qed.

Lemma has_suffix_app x suf : has_suffix suf (x ++ suf) = true.
Proof. unfold has_suffix. rewrite rev_app_distr. apply has_prefix_app. Qed.

(* a name whose lower-case form is valid passes ValidateDomainName when ToASCII leaves it alone *)
Lemma validate_arpa_valid {A} n (k : M (res A)) : name_okb domlabelb (to_lower_ascii n) = true ->
  validate_arpa (Some n) k = k.
Proof.
  intros Hok. rewrite name_okb_lower in Hok. unfold validate_arpa.
  destruct (validate_name_spec _ _ decides_domain (Some n)) as (r & Hr & Hiff & _).
  fold (validate_domain_name (Some n)) in Hr. rewrite Hr. cbn [bind].
  assert (r = None) by (apply Hiff; exists n; split; [reflexivity|exact Hok]). subst r. reflexivity.
Qed.

(* IPv4: every spelling whose lower-case form (after one optional trailing dot is cut) is the
   canonical name decodes to the address *)
Theorem roundtrip4 s a b c d : byte a -> byte b -> byte c -> byte d ->
  to_lower_ascii (trim_dot s) = canon4 [a; b; c; d] ->
  ip_from_reversed_addr s (Some (trim_dot s)) = Ret (Ok [a; b; c; d]).
Proof.
  intros Ha Hb Hc Hd Hs. unfold ip_from_reversed_addr.
  rewrite validate_arpa_valid by (rewrite Hs; apply canon4_valid; assumption).
  rewrite Hs, canon4_shape. rewrite has_suffix_app.
  unfold slice_to. rewrite slice_ret.
  - cbn [bind]. change (Z.to_nat 0) with 0%nat. cbn [skipn]. rewrite Z.sub_0_r.
    rewrite len_app. replace (len (dotted4 d c b a) + len suffix4 - len suffix4) with (len (dotted4 d c b a)) by lia.
    unfold len at 1. rewrite Nat2Z.id, firstn_app, Nat.sub_diag, firstn_all. cbn [firstn]. rewrite app_nil_r.
    unfold ipv4_from_reversed. rewrite parse_addr_dotted by assumption. reflexivity.
  - lia.
  - rewrite len_app. pose proof (len_nonneg (dotted4 d c b a)). change (len suffix4) with 13. lia.
  - rewrite len_app. change (len suffix4) with 13. lia.
Qed.

(* ================= IPv6 ================= *)

Definition chunk6 (b : Z) : gostring := [hexdigit (b mod 16); 46; hexdigit (b / 16); 46].

Lemma canon6_eq v : canon6 v = flat_map chunk6 (rev v) ++ suffix6_nodot.
Proof. reflexivity. Qed.

Lemma idx_app_at pre mid rest k : (k < length mid)%nat ->
  idx (pre ++ mid ++ rest) (len pre + Z.of_nat k) = Ret (nth k mid 0).
Proof.
  intros Hk. rewrite idx_ret_nth.
  - f_equal. replace (Z.to_nat (len pre + Z.of_nat k)) with (length pre + k)%nat by (unfold len; lia).
    rewrite app_nth2_plus. apply app_nth1. exact Hk.
  - rewrite !len_app. unfold len. lia.
Qed.

Lemma hexdigit_byte_facts b : byte b ->
  gen_fromHexByte (hexdigit (b mod 16)) = b mod 16 /\ gen_fromHexByte (hexdigit (b / 16)) = b / 16 /\
  (b / 16 * 16) mod 256 + b mod 16 = b.
Proof.
  intros Hb. unfold byte in Hb. repeat split.
  - apply from_hex_of_hexdigit. lia.
  - apply from_hex_of_hexdigit. lia.
  - lia.
Qed.

Lemma ipv6_loop_chunks rest : forall l pre i acc, len pre = 4 * i -> Forall byte l ->
  ipv6_from_reversed_loop (length l) i (pre ++ flat_map chunk6 l ++ rest) acc = Ret (Ok (rev l ++ acc)).
Proof.
  induction l as [|b t IH]; intros pre i acc Hpre Hb; [reflexivity|].
  inversion Hb as [|? ? Hb0 Hbt]; subst. cbn [length ipv6_from_reversed_loop flat_map].
  destruct (hexdigit_byte_facts b Hb0) as (F1 & F2 & F3). unfold byte in Hb0.
  rewrite <- app_assoc.
  replace (i * 4) with (len pre + Z.of_nat 0) by lia.
  rewrite (idx_app_at pre (chunk6 b) (flat_map chunk6 t ++ rest) 0) by (simpl; lia). cbn [bind nth chunk6].
  rewrite F1. destruct (b mod 16 =? 255) eqn:E1; [apply Z.eqb_eq in E1; lia|].
  replace (len pre + Z.of_nat 0 + 2) with (len pre + Z.of_nat 2) by lia.
  rewrite (idx_app_at pre (chunk6 b) (flat_map chunk6 t ++ rest) 2) by (simpl; lia). cbn [bind nth chunk6].
  rewrite F2. destruct (b / 16 =? 255) eqn:E2; [apply Z.eqb_eq in E2; lia|].
  replace (len pre + Z.of_nat 0 + 1) with (len pre + Z.of_nat 1) by lia.
  rewrite (idx_app_at pre (chunk6 b) (flat_map chunk6 t ++ rest) 1) by (simpl; lia).
  replace (len pre + Z.of_nat 0 + 3) with (len pre + Z.of_nat 3) by lia.
  rewrite (idx_app_at pre (chunk6 b) (flat_map chunk6 t ++ rest) 3) by (simpl; lia). cbn [bind nth chunk6].
  change (negb (46 =? 46) || negb (46 =? 46)) with false. cbv iota.
  rewrite F3.
  replace (pre ++ chunk6 b ++ flat_map chunk6 t ++ rest) with ((pre ++ chunk6 b) ++ flat_map chunk6 t ++ rest)
    by (rewrite <- app_assoc; reflexivity).
  rewrite (IH (pre ++ chunk6 b) (i + 1) (b :: acc)).
  - cbn [rev]. rewrite <- app_assoc. reflexivity.
  - rewrite len_app. change (len (chunk6 b)) with 4. lia.
  - exact Hbt.
Qed.

Lemma hexdigit_nodot n : 0 <= n < 16 -> hexdigit n <> dot /\ is_upper (hexdigit n) = false /\ 32 <= hexdigit n.
Proof.
  intros H. unfold hexdigit, dot, is_upper. destruct (n <? 10) eqn:E.
  - apply Z.ltb_lt in E. repeat split; lia.
  - apply Z.ltb_ge in E. repeat split; lia.
Qed.

(* the labels of the canonical IPv6 name: one hex digit each, then ip6, arpa *)
Lemma split_chunks : forall l, Forall byte l ->
  split_on dot (flat_map chunk6 l ++ suffix6_nodot)
  = flat_map (fun b => [[hexdigit (b mod 16)]; [hexdigit (b / 16)]]) l ++ [[105; 112; 54]; [97; 114; 112; 97]].
Proof.
  induction 1 as [|b t Hb _ IH]; [reflexivity|]. unfold byte in Hb.
  cbn [flat_map chunk6 app].
  change (hexdigit (b mod 16) :: 46 :: hexdigit (b / 16) :: 46 :: flat_map chunk6 t ++ suffix6_nodot)
    with ([hexdigit (b mod 16)] ++ dot :: [hexdigit (b / 16)] ++ dot :: (flat_map chunk6 t ++ suffix6_nodot)).
  rewrite split_label by (constructor; [apply hexdigit_nodot; lia|constructor]).
  rewrite split_label by (constructor; [apply hexdigit_nodot; lia|constructor]).
  rewrite IH. reflexivity.
Qed.

Lemma flat_map_length_const {A B} (f : A -> list B) n l : (forall x, length (f x) = n) -> length (flat_map f l) = (n * length l)%nat.
Proof. intros H. induction l as [|x t IH]; [simpl; lia|]. cbn [flat_map]. rewrite app_length, H, IH. simpl. lia. Qed.

Lemma removelast_two {A} (l : list A) a b : removelast (l ++ [a; b]) = l ++ [a].
Proof. replace (l ++ [a; b]) with ((l ++ [a]) ++ [b]) by (rewrite <- app_assoc; reflexivity). apply removelast_last. Qed.

Lemma last_or_two {A} (l : list A) a b d : last_or (l ++ [a; b]) d = b.
Proof. induction l as [|x [|y t] IH]; try reflexivity. exact IH. Qed.

Lemma canon6_valid v : Forall byte v -> length v = 16%nat -> name_okb domlabelb (canon6 v) = true.
Proof.
  intros Hv Hl. rewrite canon6_eq. unfold name_okb.
  assert (Hrv : Forall byte (rev v)) by (apply Forall_rev; exact Hv).
  rewrite (split_chunks (rev v) Hrv).
  assert (Hlen : len (flat_map chunk6 (rev v) ++ suffix6_nodot) = 72).
  { rewrite len_app. unfold len at 1. rewrite (flat_map_length_const chunk6 4) by reflexivity. rewrite rev_length, Hl. reflexivity. }
  rewrite Hlen. cbn [Z.leb Z.compare andb].
  set (labs := flat_map (fun b => [[hexdigit (b mod 16)]; [hexdigit (b / 16)]]) (rev v)).
  rewrite removelast_two, last_or_two. rewrite forallb_app.
cbn [forallb].
  assert (Hlabs : forallb domlabelb labs = true).
  { unfold labs. apply forallb_forall. intros l Hin. apply in_flat_map in Hin as (b & _ & [<-|[<-|[]]]); reflexivity. }
  rewrite Hlabs. reflexivity.
Qed.

Lemma canon6_lower v : Forall byte v -> to_lower_ascii (canon6 v) = canon6 v.
Proof.
  intros Hv. apply to_lower_idem_digit_dot. rewrite canon6_eq. apply Forall_app. split.
  - apply Forall_forall. intros c Hin. apply in_flat_map in Hin as (b & Hb & Hc).
    rewrite Forall_forall in Hv. assert (Hbb : byte b) by (apply Hv; apply in_rev; exact Hb). unfold byte in Hbb.
    destruct Hc as [<-|[<-|[<-|[<-|[]]]]]; try reflexivity; apply hexdigit_nodot; lia.
  - repeat constructor.
Qed.

(* IPv6: every spelling whose lower-case form is the canonical nibble name decodes to the address *)
Theorem roundtrip6 s v : Forall byte v -> length v = 16%nat ->
  to_lower_ascii (trim_dot s) = canon6 v ->
  ip_from_reversed_addr s (Some (trim_dot s)) = Ret (Ok v).
Proof.
  intros Hv Hl Hs. unfold ip_from_reversed_addr.
  rewrite validate_arpa_valid by (rewrite Hs; apply canon6_valid; assumption).
  rewrite Hs.
  assert (Hrv : Forall byte (rev v)) by (apply Forall_rev; exact Hv).
  (* the last chunk ends with a dot: the name ends with ".ip6.arpa", not with ".in-addr.arpa" *)
  destruct (rev v) as [|b0 rv'] eqn:Erv.
  { apply (f_equal (@length _)) in Erv. rewrite rev_length, Hl in Erv. discriminate. }
  assert (Hrevsplit : exists l b, rev v = l ++ [b]).
  { exists (removelast (rev v)), (last (rev v) 0). apply app_removelast_last. rewrite Erv. discriminate. }
  rewrite <- Erv in *. clear Erv b0 rv'. destruct Hrevsplit as (l & b & Hlb).
  assert (Hshape : canon6 v = (flat_map chunk6 l ++ [hexdigit (b mod 16); 46; hexdigit (b / 16)]) ++ suffix6).
  { rewrite canon6_eq, Hlb, flat_map_app. cbn [flat_map chunk6]. rewrite app_nil_r.
    change suffix6 with (46 :: suffix6_nodot). repeat (rewrite <- app_assoc; cbn [app]). reflexivity. }
  assert (Hno4 : has_suffix suffix4 (canon6 v) = false).
  { rewrite canon6_eq. unfold has_suffix. rewrite rev_app_distr. reflexivity. }
  rewrite Hno4. rewrite Hshape at 1. rewrite has_suffix_app.
  assert (Hlen : len (canon6 v) = 72).
  { rewrite canon6_eq, len_app. unfold len at 1. rewrite (flat_map_length_const chunk6 4) by reflexivity. rewrite rev_length, Hl. reflexivity. }
  rewrite Hlen. change (72 =? c_arpaV6MaxLen) with true. cbv iota.
  unfold ipv6_from_reversed. rewrite canon6_eq.
  replace 16%nat with (length (rev v)) by (rewrite rev_length; exact Hl).
  change (flat_map chunk6 (rev v) ++ suffix6_nodot) with ([] ++ flat_map chunk6 (rev v) ++ suffix6_nodot).
  rewrite (ipv6_loop_chunks suffix6_nodot (rev v) [] 0 []) by (try reflexivity; exact Hrv).
  cbn [bind]. rewrite rev_involutive, app_nil_r. reflexivity.
Qed.
