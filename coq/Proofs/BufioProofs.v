(* Proofs/BufioProofs.v — the tokens a bufio.Scanner with ScanLines hands out do
   not depend on how the reader fragments the stream (C08). *)
From Verif Require Import Base.GoPrim Base.Strings Std.Bufio.

Lemma split_aux_cur c : forall s cur,
  split_aux c cur s = match split_on c s with h :: t => (rev cur ++ h) :: t | [] => [] end.
Proof.
  induction s as [|x t IH]; intros cur.
  - simpl. rewrite ?frev_rev. rewrite app_nil_r. reflexivity.
  - unfold split_on. cbn [split_aux]. rewrite ?frev_rev. destruct (x =? c) eqn:E.
    + simpl. rewrite app_nil_r. reflexivity.
    + rewrite (IH (x :: cur)), (IH [x]).
      pose proof (split_aux_nonempty c [] t) as Hne. fold (split_on c t) in Hne.
      destruct (split_on c t) as [|h tl]; [contradiction|].
      simpl. rewrite <- app_assoc. reflexivity.
Qed.

Lemma split_on_nonempty c s : split_on c s <> [].
Proof. apply split_aux_nonempty. Qed.

Lemma split_on_nil c : split_on c [] = [[]].
Proof. reflexivity. Qed.

Lemma split_on_cons c x t :
  split_on c (x :: t) =
  if x =? c then [] :: split_on c t
  else match split_on c t with h :: tl => (x :: h) :: tl | [] => [] end.
Proof.
  unfold split_on at 1. cbn [split_aux]. destruct (x =? c); [reflexivity|].
  rewrite split_aux_cur. reflexivity.
Qed.

Lemma removelast_cons2 {A} (x y : A) l : removelast (x :: y :: l) = x :: removelast (y :: l).
Proof. reflexivity. Qed.

Lemma last_cons2 {A} (x y : A) l d : last (x :: y :: l) d = last (y :: l) d.
Proof. reflexivity. Qed.

Lemma split_on_app c : forall a b,
  split_on c (a ++ b) = removelast (split_on c a) ++ split_on c (last (split_on c a) [] ++ b).
Proof.
  induction a as [|x t IH]; intros b.
  - reflexivity.
  - rewrite <- app_comm_cons. rewrite !split_on_cons.
    pose proof (split_on_nonempty c t) as Hne.
    destruct (x =? c) eqn:E.
    + rewrite IH. destruct (split_on c t) as [|p [|q r]]; [contradiction|reflexivity|reflexivity].
    + rewrite IH. destruct (split_on c t) as [|p [|q r]]; [contradiction| |].
      * cbn [removelast last app]. rewrite split_on_cons, E. reflexivity.
      * rewrite removelast_cons2, last_cons2. rewrite <- app_comm_cons.
        rewrite removelast_cons2, last_cons2. reflexivity.
Qed.

Lemma split_on_sepfree c p : Forall (fun x => x <> c) p -> split_on c p = [p].
Proof.
  induction 1 as [|x t Hx _ IH]; [reflexivity|].
  rewrite split_on_cons. apply Z.eqb_neq in Hx. rewrite Hx, IH. reflexivity.
Qed.

Lemma split_on_sepfree_app c p b : Forall (fun x => x <> c) p ->
  exists h tl, split_on c b = h :: tl /\ split_on c (p ++ b) = (p ++ h) :: tl.
Proof.
  intros Hp. pose proof (split_on_nonempty c b) as Hne.
  destruct (split_on c b) as [|h tl] eqn:Eb; [contradiction|]. exists h, tl. split; [reflexivity|].
  induction Hp as [|x t Hx _ IH]; [exact Eb|].
  rewrite <- app_comm_cons, split_on_cons. apply Z.eqb_neq in Hx. rewrite Hx, IH. reflexivity.
Qed.

Lemma last_in {A} (l : list A) d : l <> [] -> In (last l d) l.
Proof.
  induction l as [|x [|y r] IH]; intros H; [contradiction|left; reflexivity|].
  right. apply IH. discriminate.
Qed.

Lemma last_split_sepfree c s : Forall (fun x => x <> c) (last (split_on c s) []).
Proof.
  pose proof (split_no_sep c s) as H. rewrite Forall_forall in H. apply H.
  apply last_in. apply split_on_nonempty.
Qed.

Lemma strip_last_empty_app init X : X <> [] ->
  strip_last_empty (init ++ X) = init ++ strip_last_empty X.
Proof.
  intros HX. unfold strip_last_empty. rewrite !frev_rev. rewrite rev_app_distr.
  destruct (rev X) as [|y r] eqn:Er.
  - apply (f_equal (@rev _)) in Er. rewrite rev_involutive in Er. contradiction.
  - cbn [app]. destruct y; [|reflexivity].
    rewrite !frev_rev. rewrite rev_app_distr, rev_involutive. reflexivity.
Qed.

(* ---- fragmentation independence ---- *)

Lemma pending_short limit pending d :
  Forall (fun x => x <> lf) pending ->
  Forall (fun l => len l < limit) (split_on lf (pending ++ d)) -> len pending < limit.
Proof.
  intros Hp Hlen. destruct (split_on_sepfree_app lf pending d Hp) as (h & tl & _ & E).
  rewrite E in Hlen. inversion Hlen as [|? ? H1 _]; subst. rewrite len_app in H1.
  pose proof (len_nonneg h). lia.
Qed.

Theorem feed_spec limit : forall rs pending n,
  Forall (fun x => x <> lf) pending ->
  Forall (fun l => len l < limit) (split_on lf (pending ++ delivered rs)) ->
  progress_ok n rs = true ->
  feed limit pending n rs = (scan_lines (pending ++ delivered rs), end_of rs).
Proof.
  induction rs as [|[chunk e] rs IH]; intros pending n Hp Hlen Hprog;
    pose proof (pending_short _ _ _ Hp Hlen) as Hlp; cbn [feed];
    (destruct (limit <=? len pending) eqn:El; [apply Z.leb_le in El; lia|]).
  - cbn [delivered end_of]. rewrite app_nil_r. reflexivity.
  - destruct e as [e|].
    + cbn [delivered end_of]. destruct e; reflexivity.
    + cbn [delivered end_of] in *. destruct chunk as [|c0 ch].
      * cbn [progress_ok] in Hprog. apply andb_true_iff in Hprog as [Hn Hprog]. apply Z.leb_le in Hn.
        destruct (max_empty_reads <? n + 1) eqn:Em; [apply Z.ltb_lt in Em; lia|].
        cbn [app] in *. apply IH; assumption.
      * cbn [progress_ok] in Hprog.
        remember (c0 :: ch) as chunk eqn:Ech.
        assert (Hlen2 : Forall (fun l => len l < limit) (split_on lf ((pending ++ chunk) ++ delivered rs)))
          by (rewrite <- app_assoc; exact Hlen).
        rewrite (split_on_app lf (pending ++ chunk) (delivered rs)) in Hlen2.
        apply Forall_app in Hlen2 as [_ Hlen2].
        rewrite (IH (last (split_on lf (pending ++ chunk)) []) 0 (last_split_sepfree lf (pending ++ chunk)) Hlen2 Hprog).
        f_equal. unfold scan_lines.
        rewrite (app_assoc pending chunk), (split_on_app lf (pending ++ chunk) (delivered rs)).
        rewrite strip_last_empty_app by apply split_on_nonempty.
        rewrite map_app. reflexivity.
Qed.

Corollary scan_all_spec limit rs :
  Forall (fun l => len l < limit) (split_on lf (delivered rs)) ->
  progress_ok 0 rs = true ->
  scan_all limit rs = (scan_lines (delivered rs), end_of rs).
Proof. intros H1 H2. unfold scan_all. apply (feed_spec limit rs [] 0); [constructor|exact H1|exact H2]. Qed.

(* two fragmentations of the same stream with the same ending give the same tokens *)
Corollary fragmentation_independent limit rs1 rs2 :
  delivered rs1 = delivered rs2 -> end_of rs1 = end_of rs2 ->
  Forall (fun l => len l < limit) (split_on lf (delivered rs1)) ->
  progress_ok 0 rs1 = true -> progress_ok 0 rs2 = true ->
  scan_all limit rs1 = scan_all limit rs2.
Proof.
  intros Hd He Hl H1 H2. rewrite (scan_all_spec limit rs1 Hl H1).
  rewrite Hd in Hl. rewrite (scan_all_spec limit rs2 Hl H2). rewrite Hd, He. reflexivity.
Qed.

(* a line that reaches the limit ends the scan with ErrTooLong whatever the fragmentation:
   stated for the first line *)
Lemma feed_too_long limit pending n rs :
  limit <= len pending -> feed limit pending n rs = ([], EndTooLong).
Proof. intros H. destruct rs as [|[? ?] ?]; cbn [feed]; apply Z.leb_le in H; rewrite H; reflexivity. Qed.

(* what a token is: a line of the stream without its terminator and one trailing CR *)
Lemma drop_cr_spec l : drop_cr l = l \/ l = drop_cr l ++ [cr].
Proof.
  unfold drop_cr. rewrite frev_rev. destruct (rev l) as [|x r] eqn:E; [left; reflexivity|].
  destruct (Z.eq_dec x 13) as [->|Hx].
  - right. rewrite frev_rev. apply (f_equal (@rev _)) in E. rewrite rev_involutive in E. simpl in E. exact E.
  - left. destruct x as [|p|p]; try reflexivity.
    repeat (destruct p as [p|p|]; try reflexivity). contradiction.
Qed.
