(* Proofs/IpProofs.v — the allocation-free IP validators against the netip model (C02). *)
From Verif Require Import Base.GoPrim Base.Strings Gen.Consts Gen.BytePreds Std.Netip Model.Ip Model.Addr Proofs.AddrProofs.

(* ---- host names: the boolean twins agree with the validators ---- *)

Lemma c02_hostname a : is_valid_hostname a = true <-> validate_hostname a = Ret None.
Proof.
  rewrite is_valid_hostname_spec.
  destruct (validate_name_spec _ _ decides_hostname a) as (r & Hr & Hiff & _).
  unfold validate_hostname. rewrite Hr. split.
  - intros H. f_equal. apply Hiff. exact H.
  - intros H. inversion H. apply Hiff. assumption.
Qed.

(* ---- ports ---- *)

Lemma is_uint16_from_spec s : forall n, is_uint16_from s n = true <-> parse_uint16_from s n <> None.
Proof.
  induction s as [|c t IH]; intros n; simpl.
  - split; [discriminate|reflexivity].
  - destruct (is_digit c); [|split; [discriminate|intros H; contradiction]].
    destruct (65535 <? n * 10 + (c - 48)); [split; [discriminate|intros H; contradiction]|apply IH].
Qed.

Lemma c02_port s : (negb (len s =? 0) && is_uint16 s) = true <-> parse_uint16 s <> None.
Proof.
  unfold is_uint16, parse_uint16. destruct s as [|c t].
  - simpl. split; [discriminate|intros H; contradiction].
  - rewrite len_cons. pose proof (len_nonneg t).
    replace (1 + len t =? 0) with false by (symmetry; apply Z.eqb_neq; lia).
    simpl negb. cbn [andb]. apply is_uint16_from_spec.
Qed.

(* fromHexByte c == 0xff  iff  c is not a hex digit (netip's test) *)
Lemma from_hex_byte_spec c : (gen_fromHexByte c =? 255) = match hexval c with None => true | Some _ => false end.
Proof.
  unfold gen_fromHexByte, hexval, is_digit.
  destruct ((48 <=? c) && (c <=? 57)) eqn:E1.
  - apply andb_true_iff in E1 as [H1 H2]. apply Z.leb_le in H1, H2.
    apply Z.eqb_neq. rewrite Z.mod_small by lia. lia.
  - destruct ((97 <=? c) && (c <=? 102)) eqn:E2.
    + apply andb_true_iff in E2 as [H1 H2]. apply Z.leb_le in H1, H2.
      apply Z.eqb_neq. rewrite Z.mod_small by lia. lia.
    + destruct ((65 <=? c) && (c <=? 70)) eqn:E3.
      * apply andb_true_iff in E3 as [H1 H2]. apply Z.leb_le in H1, H2.
        apply Z.eqb_neq. rewrite Z.mod_small by lia. lia.
      * reflexivity.
Qed.
