(* Model/Storage.v — hostsfile.Parse (over the line tokens of bufio.ScanLines) and
   hostsfile.DefaultStorage (C08).  Go maps are association lists; the iteration
   order of a map is not observable (Range* results are compared as sets).
   [lower] (strings.ToLower) and address equality are parameters. *)
From Verif Require Import Base.GoPrim Base.Strings Std.Bufio Model.Hosts.

Section Parse.
  Variable A : Type.
  Variable parse_addr_o : gostring -> option A.
  Variable valid : gostring -> bool.

  Inductive pevent : Type :=
  | PAdd (source : gostring) (addr : A) (names : list gostring)
  | PInvalid (source : gostring) (data : gostring) (line : Z) (err : rec_err).

  Fixpoint parse_lines (src : gostring) (n : Z) (ls : list gostring) : list pevent :=
    match ls with
    | [] => []
    | l :: rest =>
        let r := unmarshal_text A parse_addr_o valid l in
        (match ur_err r, ur_addr r, ur_names r with
         | None, Some a, Some names => PAdd src a names
         | Some e, _, _ => PInvalid src l n e
         | None, _, _ => PInvalid src l n ErrEmptyLine        (* unreachable: no error implies address and names *)
         end) :: parse_lines src (n + 1) rest
    end.

  Inductive parse_ret : Type :=
  | RetNil
  | RetScanning                                  (* fmt.Errorf("scanning: %w", s.Err()) *)
  | RetParsing (lines : list Z).                 (* errors.Join of the LineErrors, annotated *)

  Definition invalid_lines (evs : list pevent) : list Z :=
    flat_map (fun e => match e with PInvalid _ _ n _ => [n] | _ => [] end) evs.

  (* Parse over the reader's answers [rs]; [limit] = max(cap(buf), bufio.MaxScanTokenSize);
     [handles]: dst is a HandleSet *)
  Definition parse_ret_of (evs : list pevent) (e : scan_end) (handles : bool) : parse_ret :=
    match e with
    | EndEOF => if handles then RetNil
                else match invalid_lines evs with
                     | [] => RetNil
                     | ls => RetParsing ls
                     end
    | _ => RetScanning
    end.

  Definition parse_run (limit : Z) (src : gostring) (rs : list response) (handles : bool)
    : list pevent * parse_ret :=
    let '(toks, e) := scan_all limit rs in
    let evs := parse_lines src 1 toks in
    (evs, parse_ret_of evs e handles).

  (* the specification: the events of the lines of the delivered stream *)
  Definition parse_spec (src : gostring) (rs : list response) (handles : bool)
    : list pevent * parse_ret :=
    let evs := parse_lines src 1 (scan_lines (delivered rs)) in
    (evs, parse_ret_of evs (end_of rs) handles).
End Parse.

Arguments PAdd {A}.
Arguments PInvalid {A}.

(* ---- DefaultStorage ---- *)
Section Storage.
  Variable A : Type.
  Variable aeqb : A -> A -> bool.
  Variable lower : gostring -> gostring.

  (* orderedSet[K]: [keys] is the MapSet, [vals] the first-seen values *)
  Record oset (K : Type) : Type := mk_oset { os_keys : list K; os_vals : list K }.
  Arguments mk_oset {K}.
  Arguments os_keys {K}.
  Arguments os_vals {K}.

  Definition oset_add {K} (eqb : K -> K -> bool) (o : oset K) (key val : K) : oset K :=
    if existsb (eqb key) (os_keys o) then o
    else mk_oset (key :: os_keys o) (os_vals o ++ [val]).

  Record storage : Type := mk_storage {
    st_names : list (A * oset gostring);         (* names map: addr -> namesSet *)
    st_addrs : list (gostring * oset A)          (* addrs map: lowered name -> addrsSet *)
  }.

  Definition storage_new : storage := mk_storage [] [].

  Fixpoint assoc_get {K V} (eqb : K -> K -> bool) (k : K) (m : list (K * V)) : option V :=
    match m with
    | [] => None
    | (k', v) :: t => if eqb k k' then Some v else assoc_get eqb k t
    end.

  Fixpoint assoc_set {K V} (eqb : K -> K -> bool) (k : K) (v : V) (m : list (K * V)) : list (K * V) :=
    match m with
    | [] => [(k, v)]
    | (k', v') :: t => if eqb k k' then (k, v) :: t else (k', v') :: assoc_set eqb k v t
    end.

  Definition empty_oset {K} : oset K := mk_oset [] [].

  (* the body of the loop over rec.Names *)
  Definition add_name (addr : A) (s : storage) (name : gostring) : storage :=
    let lowered := lower name in
    let names := match assoc_get aeqb addr (st_names s) with Some o => o | None => empty_oset end in
    let names' := oset_add eqb_str names lowered name in
    let addrs := match assoc_get eqb_str lowered (st_addrs s) with Some o => o | None => empty_oset end in
    let addrs' := oset_add aeqb addrs addr addr in
    mk_storage (assoc_set aeqb addr names' (st_names s)) (assoc_set eqb_str lowered addrs' (st_addrs s)).

  (* DefaultStorage.Add *)
  Definition storage_add (s : storage) (addr : A) (names : list gostring) : storage :=
    match names with
    | [] => s
    | _ => fold_left (add_name addr) names s
    end.

  Definition by_addr (s : storage) (addr : A) : list gostring :=
    match assoc_get aeqb addr (st_names s) with Some o => os_vals o | None => [] end.

  Definition by_name (s : storage) (host : gostring) : list A :=
    match assoc_get eqb_str (lower host) (st_addrs s) with Some o => os_vals o | None => [] end.

  (* RangeNames / RangeAddrs: all entries (order unobservable) *)
  Definition range_names (s : storage) : list (A * list gostring) :=
    map (fun e => (fst e, os_vals (snd e))) (st_names s).
  Definition range_addrs (s : storage) : list (gostring * list A) :=
    map (fun e => (fst e, os_vals (snd e))) (st_addrs s).

  Fixpoint list_eqb {K} (eqb : K -> K -> bool) (a b : list K) : bool :=
    match a, b with
    | [], [] => true
    | x :: a', y :: b' => eqb x y && list_eqb eqb a' b'
    | _, _ => false
    end.

  (* DefaultStorage.Equal for two non-nil storages *)
  Definition storage_equal (s o : storage) : bool :=
    Nat.eqb (length (st_names s)) (length (st_names o)) &&
    Nat.eqb (length (st_addrs s)) (length (st_addrs o)) &&
    forallb (fun e => match assoc_get aeqb (fst e) (st_names o) with
                      | None => false
                      | Some on => list_eqb eqb_str (os_vals (snd e)) (os_vals on)
                      end) (st_names s).

  Definition storage_run (recs : list (A * list gostring)) : storage :=
    fold_left (fun s r => storage_add s (fst r) (snd r)) recs storage_new.
End Storage.

Arguments mk_oset {K}.
Arguments os_keys {K}.
Arguments os_vals {K}.
