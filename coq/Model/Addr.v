(* Model/Addr.v — netutil host / domain / SRV name validators (C02, C03).
   The rune predicates and the length constants come from Gen/ (regenerated
   from the Go source); idna.ToASCII is an oracle: the functions take its
   result [a : option gostring] (None = ToASCII failed).

   [for _, r := range s] decodes UTF-8, but a byte >= 0x80 never decodes to an
   ASCII rune and an ASCII byte always decodes to itself, so "every rune is a
   valid host rune" is "every byte is"; the models test bytes. *)
From Verif Require Import Base.GoPrim Base.Strings Gen.Consts Gen.BytePreds.

Definition outer (c : Z) : bool := gen_IsValidHostOuterRune c.
Definition inner (c : Z) : bool := gen_IsValidHostInnerRune c.

(* error TYPES (what replaceKind switches on) *)
Inductive nerr : Type :=
| ELen            (* *LengthError *)
| ERune           (* *RuneError *)
| EPlainErr       (* errors.Error / any other error type *)
| ELabel (inner : nerr)   (* *LabelError wrapping *)
| EAddr (inner : nerr).   (* *AddrError wrapping *)

(* replaceKind: panics on an unexpected error type *)
Definition replace_kind (e : nerr) : M nerr :=
  match e with
  | EPlainErr => Panic
  | _ => Ret e
  end.

Definition unwrap (e : nerr) : option nerr :=
  match e with
  | ELabel i | EAddr i => Some i
  | _ => None
  end.

(* ValidateDomainNameLabel *)
Definition validate_domain_label (l : gostring) : option nerr :=
  if len l =? 0 then Some (ELabel ELen)
  else if c_MaxDomainLabelLen <? len l then Some (ELabel ELen)
  else None.

(* IsValidHostnameLabel *)
Definition is_valid_hostname_label (l : gostring) : bool :=
  match l with
  | [] => false
  | c :: rest =>
      if c_MaxDomainLabelLen <? len l then false
      else if negb (outer c) then false
      else match rest with
           | [] => true
           | _ => forallb inner (removelast rest) && outer (last_or rest 0)
           end
  end.

(* ValidateHostnameLabel; the M is for replaceKind *)
Definition validate_hostname_label (l : gostring) : M (option nerr) :=
  match validate_domain_label l with
  | Some e =>
      match unwrap e with
      | Some i => do i' <- replace_kind i; Ret (Some (ELabel i'))
      | None => Panic   (* replaceKind(nil): unexpected type *)
      end
  | None =>
      match l with
      | [] => Panic  (* label[0] on an empty label: excluded by the check above *)
      | c :: rest =>
          if negb (outer c) then Ret (Some (ELabel ERune))
          else match rest with
               | [] => Ret None
               | _ => if negb (forallb inner (removelast rest)) then Ret (Some (ELabel ERune))
                      else if negb (outer (last_or rest 0)) then Ret (Some (ELabel ERune))
                      else Ret None
               end
      end
  end.

(* hasValidTLDChars *)
Definition has_valid_tld_chars (l : gostring) : bool := existsb (fun c => negb (is_digit c)) l.

Definition is_valid_tld_label (l : gostring) : bool := is_valid_hostname_label l && has_valid_tld_chars l.

(* ValidateTLDLabel *)
Definition validate_tld_label (l : gostring) : M (option nerr) :=
  do r <- validate_hostname_label l;
  match r with
  | Some e =>
      match unwrap e with
      | Some i => do i' <- replace_kind i; Ret (Some (ELabel i'))
      | None => Panic
      end
  | None => if has_valid_tld_chars l then Ret None else Ret (Some (ELabel EPlainErr))
  end.

(* ValidateServiceNameLabel *)
Definition underscore : Z := 95.
Definition validate_service_label (l : gostring) : M (option nerr) :=
  match l with
  | [] => Ret (Some (ELabel ELen))
  | c :: rest =>
      if (c =? underscore) && (len rest =? 0) then Ret (Some (ELabel ELen))
      else if negb (c =? underscore) then Ret (Some (ELabel ERune))
      else if c_MaxServiceLabelLen <? len l then Ret (Some (ELabel ELen))
      else
        do r <- validate_hostname_label rest;
        match r with
        | Some e =>
            match unwrap e with
            | Some i => do i' <- replace_kind i; Ret (Some (ELabel i'))
            | None => Panic
            end
        | None => Ret None
        end
  end.

(* the Cut loop: every label but the last through [lab], the last through the TLD validator *)
Fixpoint walk_labels (lab : gostring -> M (option nerr)) (cur : gostring) (s : gostring) : M (option nerr) :=
  match s with
  | [] => validate_tld_label (rev cur)
  | x :: t =>
      if x =? dot then
        do r <- lab (rev cur);
        match r with
        | Some e => Ret (Some e)
        | None => walk_labels lab [] t
        end
      else walk_labels lab (x :: cur) t
  end.

Definition validate_name (lab : gostring -> M (option nerr)) (a : option gostring) : M (option nerr) :=
  match a with
  | None => Ret (Some (EAddr EPlainErr))           (* idna error, wrapped by the deferred makeAddrError *)
  | Some n =>
      if len n =? 0 then Ret (Some (EAddr ELen))
      else if c_MaxDomainNameLen <? len n then Ret (Some (EAddr ELen))
      else do r <- walk_labels lab [] n;
           match r with
           | Some e => Ret (Some (EAddr e))
           | None => Ret None
           end
  end.

Definition validate_hostname (a : option gostring) : M (option nerr) :=
  validate_name validate_hostname_label a.

Definition validate_domain_name (a : option gostring) : M (option nerr) :=
  validate_name (fun l => Ret (validate_domain_label l)) a.

Definition validate_srv_domain_name (a : option gostring) : M (option nerr) :=
  validate_name (fun l => match l with
                          | c :: _ => if c =? underscore then validate_service_label l else validate_hostname_label l
                          | [] => validate_hostname_label l
                          end) a.

(* IsValidHostname *)
Fixpoint walk_labels_b (cur : gostring) (s : gostring) : bool :=
  match s with
  | [] => is_valid_tld_label (rev cur)
  | x :: t =>
      if x =? dot then is_valid_hostname_label (rev cur) && walk_labels_b [] t
      else walk_labels_b (x :: cur) t
  end.

Definition is_valid_hostname (a : option gostring) : bool :=
  match a with
  | None => false
  | Some n =>
      if len n =? 0 then false
      else if c_MaxDomainNameLen <? len n then false
      else walk_labels_b [] n
  end.
