(* Model/HttpMw.v — httputil.Wrap (middleware order), CodeRecorderResponseWriter and
   the pool programme one request runs through httputil.LogMiddleware (C20). *)
From Verif Require Import Base.GoPrim Model.Pool.

(* ================= httputil.Wrap ================= *)

(* what serving one request through a handler does, as a trace *)
Inductive hev : Type :=
| HPre (m : nat)          (* middleware m, before calling the handler it wraps *)
| HPost (m : nat)         (* ... after it returned *)
| HInner.                 (* the innermost handler *)

(* a middleware wraps a handler: its own work around the inner one *)
Definition mw_wrap (m : nat) (inner : list hev) : list hev := HPre m :: inner ++ [HPost m].

(* for i := len(middlewares)-1; i >= 0; i-- { wrapped = middlewares[i].Wrap(wrapped) };
   [ms_rev]: the middlewares in the order the loop visits them *)
Fixpoint wrap_loop (ms_rev : list nat) (wrapped : list hev) : list hev :=
  match ms_rev with
  | [] => wrapped
  | m :: rest => wrap_loop rest (mw_wrap m wrapped)
  end.

Definition wrap (h : list hev) (ms : list nat) : list hev := wrap_loop (rev ms) h.

(* ================= CodeRecorderResponseWriter ================= *)

Inductive rw_op : Type :=
| RWHeader (code : Z)     (* WriteHeader(code) *)
| RWrite                  (* Write(...) *)
| RImplicit.              (* SetImplicitSuccess() *)

(* the recorded code and the calls forwarded to the wrapped writer *)
Fixpoint crw_run (code : Z) (ops : list rw_op) : Z * list rw_op :=
  match ops with
  | [] => (code, [])
  | RWHeader c :: rest => let '(c', fw) := crw_run c rest in (c', RWHeader c :: fw)
  | RWrite :: rest => let '(c', fw) := crw_run code rest in (c', RWrite :: fw)
  | RImplicit :: rest => crw_run (if code =? 0 then 200 else code) rest
  end.

(* what LogMiddleware logs as "code" for a handler that performs [ops]: Reset, the handler, SetImplicitSuccess *)
Definition finished_code (ops : list rw_op) : Z := fst (crw_run 0 (ops ++ [RImplicit])).

(* ================= LogMiddleware: one request's use of the three pools ================= *)

Definition k_attrs : nat := 0.
Definition k_req : nat := 1.
Definition k_rw : nat := 2.

(* the values a request writes into its pooled objects; all determined by the request's number *)
Definition attrs_of (i : Z) : Z := 1000000 + i.          (* host, method, raddr, request_uri of request i *)
Definition req_of (i : Z) : Z := 2000000 + i.            (* the copy of the request made by CopyRequestTo *)
Definition rw_of (i code : Z) : Z := 3000000 + i * 1000 + code.   (* rw.rw = w_i, rw.code = code *)

(* request i whose handler sets status [code] (0 = it never calls WriteHeader) *)
Definition logmw_prog (i code : Z) : list pop :=
  [PGet k_attrs; PWrite k_attrs (attrs_of i);        (* attrsSlicePtr: Get, attrs[0..3] = ... *)
   PRead k_attrs;                                    (* logger.Handler().WithAttrs reads them *)
   PGet k_req; PWrite k_req (req_of i);              (* reqPool.Get; CopyRequestTo *)
   PGet k_rw; PWrite k_rw (rw_of i 0);               (* rwPool.Get; rw.Reset(w) *)
   PRead k_req; PRead k_rw]                          (* h.ServeHTTP(rw, nextReq): sees the request, writes through rw *)
  ++ (if code =? 0 then [] else [PWrite k_rw (rw_of i code)])      (* WriteHeader(code) *)
  ++ [PRead k_rw; PWrite k_rw (rw_of i (if code =? 0 then 200 else code));   (* SetImplicitSuccess *)
      PRead k_rw;                                    (* deferred logFinished reads rw.code *)
      PPut k_rw; PPut k_req; PPut k_attrs].          (* deferred Puts, last registered first *)

(* the variant in which the attribute slice goes back to the pool before WithAttrs has read it *)
Definition logmw_prog_early_put (i : Z) : list pop :=
  [PGet k_attrs; PWrite k_attrs (attrs_of i); PPut k_attrs; PRead k_attrs].
