(* Model/Service.v — service.SignalHandler (Handle / shutdown / shutdownService)
   and service.RefreshWorker (refreshInALoop / refresh / Shutdown) as functions
   from the environment's events to the observable actions (C18). *)
From Verif Require Import Base.GoPrim Base.Skel Model.ExpectedSkel.
From Coq Require Import String.

(* the operation skeletons the models were written for *)

(* ================= SignalHandler ================= *)

Inductive outcome : Type := ONil | OErr | OPanic.      (* what a service's Shutdown does *)

Definition exit_success : Z := 0.
Definition exit_failure : Z := 1.

(* shutdownService: a panic is recovered and turned into an error *)
Definition shutdown_service (o : outcome) : bool (* err != nil *) :=
  match o with ONil => false | OErr => true | OPanic => true end.

(* shutdown: for i := len-1 .. 0; the calls (service indices, in call order) and the status.
   [outs] is processed from its END: the argument is the list of outcomes in registration order *)
Fixpoint shutdown_from (rev_outs : list outcome) (i : Z) (status : Z) : list Z * Z :=
  match rev_outs with
  | [] => ([], status)
  | o :: rest =>
      let status' := if shutdown_service o then exit_failure else status in
      let '(calls, st) := shutdown_from rest (i - 1) status' in
      (i :: calls, st)
  end.

Definition shutdown (outs : list outcome) : list Z * Z :=
  shutdown_from (rev outs) (len outs - 1) exit_success.

(* Handle: range over the signal channel; [true] = a shutdown signal (SIGINT, SIGQUIT, SIGTERM).
   None = still waiting for a signal after the given ones *)
Fixpoint handle (sigs : list bool) (outs : list outcome) : list Z * option Z :=
  match sigs with
  | [] => ([], None)
  | true :: _ => let '(calls, st) := shutdown outs in (calls, Some st)
  | false :: rest => handle rest outs
  end.

(* ================= RefreshWorker ================= *)

Inductive rctx : Type := CtxStart | CtxShutdown.           (* the parent of a refresh context *)

Inductive raction : Type :=
| AUntilNext                       (* schedule.UntilNext(clock.Now()) *)
| AAfter (d : Z)                   (* clock.After(d) *)
| ARefresh (parent : rctx) (err : bool)   (* Refresh with a context from the constructor applied to [parent], cancelled afterwards *)
| AHandle                          (* errHdlr.Handle(loop ctx, err) *)
| AShutdownRet (err : bool).       (* Shutdown returns nil / the wrapped refresh error *)

Inductive revent : Type :=
| ETick (err : bool)               (* the pending timer fires and is selected; Refresh returns nil / an error *)
| EShutdown (err : bool)           (* Shutdown(ctx) is called while the loop waits in select;
                                      [err]: what the final Refresh (if any) returns *)
| ERaceShutdown (sh_err pick err2 : bool).
    (* the timer fires; WHILE that Refresh (returning nil) runs, Shutdown is called and returns;
       the timer armed next is already ready when the loop selects again, so both cases of the
       select are ready: [pick] = Go chose the timer case, and that Refresh returns [err2] *)

Record rstate : Type := mk_rstate {
  r_alive : bool;                  (* the loop has not observed done *)
  r_durs : list Z                  (* what the schedule will answer next *)
}.

Definition next_dur (st : rstate) : Z * rstate :=
  match r_durs st with
  | [] => (0, st)
  | d :: t => (d, mk_rstate (r_alive st) t)
  end.

(* the loop's prologue: waitDur := UntilNext(Now()); first select arms After(waitDur) *)
Definition rw_start (durs : list Z) : list raction * rstate :=
  let '(d, st) := next_dur (mk_rstate true durs) in
  ([AUntilNext; AAfter d], st).

Definition rw_event (refr_on_shutdown : bool) (st : rstate) (e : revent) : list raction * rstate :=
  match e with
  | ETick err =>
      if r_alive st then
        let '(d, st') := next_dur st in
        ([ARefresh CtxStart err] ++ (if err then [AHandle] else []) ++ [AUntilNext; AAfter d], st')
      else ([], st)                           (* the loop has returned: nobody receives from the timer *)
  | EShutdown err =>
      (* close(done): a loop blocked in select with no tick pending observes it and returns *)
      let st' := mk_rstate false (r_durs st) in
      if refr_on_shutdown then ([ARefresh CtxShutdown err; AShutdownRet err], st')
      else ([AShutdownRet false], st')
  | ERaceShutdown sh_err pick err2 =>
      if r_alive st then
        let '(d, st1) := next_dur st in
        let shut := if refr_on_shutdown then [ARefresh CtxShutdown sh_err; AShutdownRet sh_err] else [AShutdownRet false] in
        let pre := [ARefresh CtxStart false] ++ shut ++ [AUntilNext; AAfter d] in
        if pick then
          let '(d2, st2) := next_dur st1 in
          (pre ++ [ARefresh CtxStart err2] ++ (if err2 then [AHandle] else []) ++ [AUntilNext; AAfter d2],
           mk_rstate false (r_durs st2))
        else (pre, mk_rstate false (r_durs st1))
      else ([], st)
  end.

Fixpoint rw_events (ros : bool) (st : rstate) (es : list revent) : list raction :=
  match es with
  | [] => []
  | e :: rest => let '(acts, st') := rw_event ros st e in acts ++ rw_events ros st' rest
  end.

Definition rw_run (ros : bool) (durs : list Z) (es : list revent) : list raction :=
  let '(acts, st) := rw_start durs in acts ++ rw_events ros st es.
