(* Model/ListHeap.v — the memory that cache/list.go works on: listItem nodes identified by
   natural numbers, each with a next and a prev field.  (The intrusive part — structPtr's pointer
   arithmetic from the address of the field [used] back to the enclosing item — is the identity on
   node identifiers here and stays trusted.) *)
From Coq Require Import Arith List.
Import ListNotations.

Definition ptr := nat.

Record heap : Type := mk_heap { nxt : ptr -> ptr; prv : ptr -> ptr }.

Definition upd (f : ptr -> ptr) (p v : ptr) : ptr -> ptr := fun q => if Nat.eqb q p then v else f q.

Definition get_next (h : heap) (p : ptr) : ptr := nxt h p.
Definition get_prev (h : heap) (p : ptr) : ptr := prv h p.
Definition set_next (h : heap) (p v : ptr) : heap := mk_heap (upd (nxt h) p v) (prv h).
Definition set_prev (h : heap) (p v : ptr) : heap := mk_heap (nxt h) (upd (prv h) p v).
