(* Model/IpL1.v — netutil/ip.go's validators with the Go indices (L1): every s[i] and
   s[a:b] goes through the bounds-checked primitives of Base/GoPrim.v, so an out-of-range
   access would be the value [Panic] (C01).  Proofs/IpL1Proofs.v shows that no input
   reaches it and that these functions compute Model/Ip.v's (C02). *)
From Verif Require Import Base.GoPrim Base.Strings Gen.Consts Gen.BytePreds Model.Ip.

(* countIPv6FieldRunes: for n = range s { if fromHexByte(s[n]) == 0xff { return n } else if n > 3 { return 0 } }; return len(s)
   (a non-ASCII byte is not a hex digit, so the rune iteration never skips a byte) *)
Fixpoint count_field_l1 (fuel : nat) (s : gostring) (n : Z) : M Z :=
  match fuel with
  | O => OutOfFuel
  | S fuel' =>
      if len s <=? n then Ret (len s)
      else
        do c <- idx s n;
        if gen_fromHexByte c =? 255 then Ret n
        else if 3 <? n then Ret 0
        else count_field_l1 fuel' s (n + 1)
  end.

Definition count_ipv6_field_runes_l1 (s : gostring) : M Z := count_field_l1 (S (length s)) s 0.

(* countIPv6SepRunes: s[0] != ':' , len(s) == 1, s[1] == ':' *)
Definition count_ipv6_sep_runes_l1 (s : gostring) (had : bool) : M (Z * bool) :=
  do c0 <- idx s 0;
  if negb (c0 =? 58) || (len s =? 1) then Ret (0, had)
  else
    do c1 <- idx s 1;
    if c1 =? 58 then Ret (if had then (0, false) else (2, true))
    else Ret (1, had).

(* trimValidIPv6Field: s[fieldLen], s[fieldLen:] *)
Definition trim_valid_ipv6_field_l1 (s : gostring) (got : Z) (has_ell : bool) : M (gostring * bool) :=
  do fl <- count_ipv6_field_runes_l1 s;
  if fl =? 0 then Ret ([], false)
  else if fl =? len s then Ret ([], Bool.eqb has_ell (got + 1 <? c_maxIPv6FieldsNum))
  else
    do c <- idx s fl;
    if c =? 46 then
      let fits := if has_ell then got <? c_maxIPv6FieldsNum - 2 else got =? c_maxIPv6FieldsNum - 2 in
      Ret ([], fits && is_valid_ipv4_string s)
    else
      do r <- slice_from s fl;
      Ret (r, true).

(* the loop of isValidIPv6String: s = s[sepLen:] *)
Fixpoint v6_fields_l1 (fuel : nat) (s : gostring) (fields : Z) (has_ell : bool) : M bool :=
  match fuel with
  | O => Ret false
  | S fuel' =>
      if (fields <? c_maxIPv6FieldsNum) && negb (len s =? 0) then
        do r <- trim_valid_ipv6_field_l1 s fields has_ell;
        let '(s1, ok) := r in
        if negb ok then Ret false
        else if len s1 =? 0 then Ret true
        else
          do sp <- count_ipv6_sep_runes_l1 s1 has_ell;
          let '(sep, has_ell') := sp in
          if sep =? 0 then Ret false
          else
            do s2 <- slice_from s1 sep;
            v6_fields_l1 fuel' s2 (fields + 1) has_ell'
      else Ret ((len s =? 0) && Bool.eqb has_ell (fields <? c_maxIPv6FieldsNum))
  end.

(* isValidIPv6String: hasEllipsis := strings.HasPrefix(s, "::"); if hasEllipsis { s = s[2:] } *)
Definition is_valid_ipv6_string_l1 (s : gostring) : M bool :=
  if has_prefix [58; 58] s then
    do r <- slice_from s 2;
    v6_fields_l1 10 r 0 true
  else v6_fields_l1 10 s 0 false.

(* IsValidIPString: for i, significant := 0, 0; i < strLen && significant <= maxSignificant; i++ { switch s[i] ... } *)
Fixpoint ip_dispatch_l1 (fuel : nat) (s : gostring) (i significant : Z) : M bool :=
  match fuel with
  | O => OutOfFuel
  | S fuel' =>
      if (i <? len s) && (significant <=? c_maxSignificant) then
        do c <- idx s i;
        if c =? 46 then Ret (is_valid_ipv4_string s)
        else if c =? 58 then
          (* strings.Cut(s, "%") *)
          let j := index_byte s 37 in
          if j =? -1 then is_valid_ipv6_string_l1 s
          else
            do zone <- slice_from s (j + 1);
            if len zone =? 0 then Ret false
            else
              do wz <- slice_to s j;
              is_valid_ipv6_string_l1 wz
        else ip_dispatch_l1 fuel' s (i + 1) (significant + 1)
      else Ret false
  end.

Definition is_valid_ip_string_l1 (s : gostring) : M bool := ip_dispatch_l1 (S (length s)) s 0 0.

(* splitAddrPort + IsValidIPPortString: s[:i], s[i+1:], ip[1:len(ip)-1] *)
Definition is_valid_ip_port_string_l1 (s : gostring) : M bool :=
  let i := last_idx_from 58 s 0 (-1) in
  if i =? -1 then Ret false
  else
    do ip <- slice_to s i;
    do port <- slice_from s (i + 1);
    if (len ip =? 0) || (len port =? 0) then Ret false
    else
      do r <-
        (if contains_byte ip 58 then
           if negb (has_prefix [91] ip) || negb (has_suffix [93] ip) then Ret (ip, false)
           else do inner <- slice ip 1 (len ip - 1); Ret (inner, true)
         else Ret (ip, true));
      let '(ip', ok) := r in
      if negb ok then Ret false
      else if negb (is_uint16 port) then Ret false
      else is_valid_ip_string_l1 ip'.
