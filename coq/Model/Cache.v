(* Model/Cache.v — executable model of cache.cache (C09, C10).

   The state is what the mutex protects.  The intrusive usage list and the map
   are one list of entries: in LRU mode its order is the usage order (oldest
   first); each entry remembers whether its node was linked, and unlinking a
   node that was never linked is a nil dereference = Panic.

   A call is decomposed into the atomic sections the mutex delimits.  [Set]
   releases the lock around every OnDelete call, so the callback may re-enter
   the cache: the interpreter is a stack machine whose stack holds the work that
   remains, and the callback is an arbitrary function from (invocation number,
   key, value) to the operations it performs. *)
From Verif Require Import Base.GoPrim.

Definition max_uint : Z := 18446744073709551615.

Record cconf : Type := mk_cconf {
  cf_max_size : Z; cf_max_elem : Z; cf_max_count : Z; cf_lru : bool; cf_has_cb : bool
}.

(* newCache's normalisation of the Config *)
Definition normalize_conf (max_size max_elem max_count : Z) (lru has_cb : bool) : cconf :=
  let ms := if max_size =? 0 then max_uint else max_size in
  let mc := if max_count =? 0 then max_uint else max_count in
  let me := if max_elem =? 0 then ms else max_elem in
  let me := if ms <? me then ms else me in
  mk_cconf ms me mc lru has_cb.

Record centry : Type := mk_centry { ce_key : gostring; ce_val : gostring; ce_linked : bool }.

Record cstate : Type := mk_cstate {
  cs_entries : list centry;   (* LRU mode: usage order, oldest first *)
  cs_size : Z;
  cs_hit : Z;
  cs_miss : Z
}.

Definition cache_new : cstate := mk_cstate [] 0 0 0.

Inductive cop : Type :=
| CSet (k v : gostring)
| CGet (k : gostring)
| CDel (k : gostring)
| CClear
| CStats.

Inductive cev : Type :=
| EvSet (replaced : bool)
| EvGet (r : option gostring)
| EvDel
| EvClear
| EvStats (count size hit miss : Z)
| EvOnDelete (k v : gostring).

(* remaining work *)
Inductive ctask : Type :=
| TOp (o : cop)
| TSetLoop (k v : gostring).   (* Set, inside the critical section, at the head of the eviction loop *)

Fixpoint find_entry (k : gostring) (es : list centry) : option centry :=
  match es with
  | [] => None
  | e :: t => if eqb_str k (ce_key e) then Some e else find_entry k t
  end.

Fixpoint remove_entry (k : gostring) (es : list centry) : list centry :=
  match es with
  | [] => []
  | e :: t => if eqb_str k (ce_key e) then t else e :: remove_entry k t
  end.

Definition esize (e : centry) : Z := len (ce_key e) + len (ce_val e).

(* listUnlink(&it.used), executed only when EnableLRU (the code's guard) *)
Definition unlink_ok (cf : cconf) (e : centry) : bool :=
  if cf_lru cf then ce_linked e else true.

Record mstate : Type := mk_mstate {
  ms_st : cstate;
  ms_stack : list ctask;
  ms_calls : nat;             (* OnDelete invocations so far *)
  ms_trace : list cev         (* newest first *)
}.

Section Machine.
  Variable cf : cconf.
  (* the OnDelete callback: what it does on its n-th invocation with (key, value) *)
  Variable cb : nat -> gostring -> gostring -> list cop.

  Definition count (st : cstate) : Z := len (cs_entries st).

  Definition needs_room (st : cstate) (add : Z) : bool :=
    (cf_max_size cf <? cs_size st + add) || (count st =? cf_max_count cf).

  Definition emit (ms : mstate) (st : cstate) (stack : list ctask) (e : cev) : mstate :=
    mk_mstate st stack (ms_calls ms) (e :: ms_trace ms).

  (* the final part of Set: insert, replacing a live entry with the same key *)
  Definition do_insert (ms : mstate) (rest : list ctask) (k v : gostring) : M mstate :=
    let st := ms_st ms in
    let add := len k + len v in
    match find_entry k (cs_entries st) with
    | Some old =>
        if unlink_ok cf old then
          let es := remove_entry k (cs_entries st) ++ [mk_centry k v (cf_lru cf)] in
          Ret (emit ms (mk_cstate es (cs_size st - esize old + add) (cs_hit st) (cs_miss st)) rest (EvSet true))
        else Panic
    | None =>
        let es := cs_entries st ++ [mk_centry k v (cf_lru cf)] in
        Ret (emit ms (mk_cstate es (cs_size st + add) (cs_hit st) (cs_miss st)) rest (EvSet false))
    end.

  (* one atomic step; the stack is non-empty *)
  Definition step (ms : mstate) : M mstate :=
    let st := ms_st ms in
    match ms_stack ms with
    | [] => Ret ms
    | TOp (CSet k v) :: rest =>
        let add := len k + len v in
        if cf_max_elem cf <? add then Ret (emit ms st rest (EvSet false))
        else if cf_lru cf then
          Ret (mk_mstate st (TSetLoop k v :: rest) (ms_calls ms) (ms_trace ms))
        else
          (* without LRU: refuse when full; the eviction loop's condition is the
             same expression under the same lock, so the loop is not entered *)
          if needs_room st add then Ret (emit ms st rest (EvSet false))
          else do_insert ms rest k v
    | TSetLoop k v :: rest =>
        let add := len k + len v in
        if needs_room st add then
          (* evict the least recently used entry *)
          match cs_entries st with
          | [] => Panic   (* listFirst of an empty list is the sentinel: garbage dereference *)
          | e :: es =>
              if negb (ce_linked e) then Panic else
              let st' := mk_cstate es (cs_size st - esize e) (cs_hit st) (cs_miss st) in
              if cf_has_cb cf then
                Ret (mk_mstate st'
                       (map TOp (cb (ms_calls ms) (ce_key e) (ce_val e)) ++ TSetLoop k v :: rest)
                       (S (ms_calls ms))
                       (EvOnDelete (ce_key e) (ce_val e) :: ms_trace ms))
              else Ret (mk_mstate st' (TSetLoop k v :: rest) (ms_calls ms) (ms_trace ms))
          end
        else do_insert ms rest k v
    | TOp (CGet k) :: rest =>
        match find_entry k (cs_entries st) with
        | Some e =>
            if cf_lru cf then
              if ce_linked e then
                let es := remove_entry k (cs_entries st) ++ [e] in
                Ret (emit ms (mk_cstate es (cs_size st) (cs_hit st + 1) (cs_miss st)) rest (EvGet (Some (ce_val e))))
              else Panic
            else Ret (emit ms (mk_cstate (cs_entries st) (cs_size st) (cs_hit st + 1) (cs_miss st)) rest (EvGet (Some (ce_val e))))
        | None =>
            Ret (emit ms (mk_cstate (cs_entries st) (cs_size st) (cs_hit st) (cs_miss st + 1)) rest (EvGet None))
        end
    | TOp (CDel k) :: rest =>
        match find_entry k (cs_entries st) with
        | Some e =>
            if unlink_ok cf e then
              Ret (emit ms (mk_cstate (remove_entry k (cs_entries st)) (cs_size st - esize e) (cs_hit st) (cs_miss st)) rest EvDel)
            else Panic
        | None => Ret (emit ms st rest EvDel)
        end
    | TOp CClear :: rest => Ret (emit ms (mk_cstate [] 0 0 0) rest EvClear)
    | TOp CStats :: rest =>
        Ret (emit ms st rest (EvStats (count st) (cs_size st) (cs_hit st) (cs_miss st)))
    end.

  Fixpoint run (fuel : nat) (ms : mstate) : M mstate :=
    match ms_stack ms with
    | [] => Ret ms
    | _ =>
        match fuel with
        | O => OutOfFuel
        | S fuel' => do ms' <- step ms; run fuel' ms'
        end
    end.
End Machine.

(* a complete run from a new cache: the trace, oldest event first *)
Definition cache_run (cf : cconf) (cb : nat -> gostring -> gostring -> list cop)
           (fuel : nat) (ops : list cop) : M (list cev) :=
  do ms <- run cf cb fuel (mk_mstate cache_new (map TOp ops) 0 []);
  Ret (rev (ms_trace ms)).

(* scripted callback for the correspondence: the i-th invocation performs script[i] *)
Definition scripted_cb (script : list (list cop)) (n : nat) (_ _ : gostring) : list cop :=
  nth n script [].

(* ------------------------------------------------------------------ *)
(* Concurrent use (C10): any number of goroutines, each with its own stack of
   remaining work (its calls, and the callbacks it is inside of), sharing the
   state.  A schedule is any sequence of goroutine numbers; one scheduled step
   is one atomic section of that goroutine.  The atomicity of the sections is
   what the lock-discipline theorem about the regenerated skeletons justifies. *)

Record cms : Type := mk_cms {
  cm_st : cstate;
  cm_threads : list (list ctask);
  cm_calls : nat;
  cm_trace : list (nat * cev)      (* (goroutine, event), newest first *)
}.

Fixpoint set_thread (i : nat) (s : list ctask) (ts : list (list ctask)) : list (list ctask) :=
  match ts, i with
  | [], _ => []
  | _ :: t, O => s :: t
  | h :: t, S i' => h :: set_thread i' s t
  end.

Definition cstep (cf : cconf) (cb : nat -> gostring -> gostring -> list cop) (tid : nat) (c : cms) : M cms :=
  match nth_error (cm_threads c) tid with
  | None => Ret c
  | Some [] => Ret c
  | Some stack =>
      do ms' <- step cf cb (mk_mstate (cm_st c) stack (cm_calls c) []);
      Ret (mk_cms (ms_st ms') (set_thread tid (ms_stack ms') (cm_threads c)) (ms_calls ms')
                  (map (fun e => (tid, e)) (ms_trace ms') ++ cm_trace c))
  end.

Fixpoint crun (cf : cconf) (cb : nat -> gostring -> gostring -> list cop) (sched : list nat) (c : cms) : M cms :=
  match sched with
  | [] => Ret c
  | tid :: rest => do c' <- cstep cf cb tid c; crun cf cb rest c'
  end.

Definition cms_init (progs : list (list cop)) : cms :=
  mk_cms cache_new (map (map TOp) progs) 0 [].
