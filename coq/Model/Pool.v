(* Model/Pool.v — goroutines working with objects taken from sync.Pool-backed pools
   (syncutil.Pool): Get, overwrite, read, Put.  Used for httputil.LogMiddleware's
   attribute / request / response-writer pools (C20).

   A pooled object is (kind, value, holder).  Get returns any object of the kind
   that nobody holds, or a new one; a goroutine keeps its pointer after Put (so a
   use after Put is expressible: it reads or writes whatever the object is now). *)
From Verif Require Import Base.GoPrim.

Inductive pop : Type :=
| PGet (k : nat)              (* p := pool_k.Get() *)
| PWrite (k : nat) (v : Z)    (* overwrite the object: *p = v *)
| PRead (k : nat)             (* use the object: the value seen is logged *)
| PPut (k : nat).             (* pool_k.Put(p) *)

Record pobj : Type := mk_pobj { po_kind : nat; po_val : Z; po_owner : option nat }.

Fixpoint alookup {V} (k : nat) (l : list (nat * V)) : option V :=
  match l with
  | [] => None
  | (k', v) :: t => if Nat.eqb k k' then Some v else alookup k t
  end.

Fixpoint aremove {V} (k : nat) (l : list (nat * V)) : list (nat * V) :=
  match l with
  | [] => []
  | (k', v) :: t => if Nat.eqb k k' then aremove k t else (k', v) :: aremove k t
  end.

Definition aset {V} (k : nat) (v : V) (l : list (nat * V)) : list (nat * V) := (k, v) :: aremove k l.

Record pthread : Type := mk_pthread {
  pt_prog : list pop;                    (* what is left to do *)
  pt_ptrs : list (nat * nat);            (* kind -> index of the object last obtained (kept after Put) *)
  pt_loc : list (nat * option Z)         (* GHOST: kinds currently held -> the value this goroutine wrote since Get (None: not yet) *)
}.

(* a log entry: goroutine, kind, the value it saw, and (ghost) the value it wrote itself *)
Record pstate : Type := mk_pstate {
  ps_threads : list pthread;
  ps_objs : list pobj;
  ps_log : list (nat * nat * Z * option Z)
}.

Fixpoint pupd {A} (l : list A) (i : nat) (x : A) : list A :=
  match l, i with
  | [], _ => []
  | _ :: t, O => x :: t
  | h :: t, S i' => h :: pupd t i' x
  end.

Definition flat {A} (o : option (option A)) : option A := match o with Some (Some x) => Some x | _ => None end.

Definition p_step (s : pstate) (i choice : nat) : option pstate :=
  match nth_error (ps_threads s) i with
  | None => None
  | Some th =>
      match pt_prog th with
      | [] => None
      | op :: rest =>
          let th_with ptrs loc := mk_pthread rest ptrs loc in
          match op with
          | PGet k =>
              match nth_error (ps_objs s) choice with
              | Some (mk_pobj k' v None) =>
                  if Nat.eqb k' k then
                    Some (mk_pstate (pupd (ps_threads s) i (th_with (aset k choice (pt_ptrs th)) (aset k None (pt_loc th))))
                                    (pupd (ps_objs s) choice (mk_pobj k v (Some i))) (ps_log s))
                  else
                    Some (mk_pstate (pupd (ps_threads s) i (th_with (aset k (length (ps_objs s)) (pt_ptrs th)) (aset k None (pt_loc th))))
                                    (ps_objs s ++ [mk_pobj k 0 (Some i)]) (ps_log s))
              | _ =>
                  Some (mk_pstate (pupd (ps_threads s) i (th_with (aset k (length (ps_objs s)) (pt_ptrs th)) (aset k None (pt_loc th))))
                                  (ps_objs s ++ [mk_pobj k 0 (Some i)]) (ps_log s))
              end
          | PWrite k v =>
              match alookup k (pt_ptrs th) with
              | None => None
              | Some p =>
                  match nth_error (ps_objs s) p with
                  | None => None
                  | Some o =>
                      Some (mk_pstate (pupd (ps_threads s) i (th_with (pt_ptrs th)
                                         (match alookup k (pt_loc th) with Some _ => aset k (Some v) (pt_loc th) | None => pt_loc th end)))
                                      (pupd (ps_objs s) p (mk_pobj (po_kind o) v (po_owner o))) (ps_log s))
                  end
              end
          | PRead k =>
              match alookup k (pt_ptrs th) with
              | None => None
              | Some p =>
                  match nth_error (ps_objs s) p with
                  | None => None
                  | Some o =>
                      Some (mk_pstate (pupd (ps_threads s) i (th_with (pt_ptrs th) (pt_loc th))) (ps_objs s)
                                      (ps_log s ++ [(i, k, po_val o, flat (alookup k (pt_loc th)))]))
                  end
              end
          | PPut k =>
              match alookup k (pt_ptrs th) with
              | None => None
              | Some p =>
                  match nth_error (ps_objs s) p with
                  | None => None
                  | Some o =>
                      Some (mk_pstate (pupd (ps_threads s) i (th_with (pt_ptrs th) (aremove k (pt_loc th))))
                                      (match alookup k (pt_loc th) with
                                       | Some _ => pupd (ps_objs s) p (mk_pobj (po_kind o) (po_val o) None)
                                       | None => ps_objs s          (* Put of something not held: sync.Pool accepts it; modelled as no change *)
                                       end)
                                      (ps_log s))
                  end
              end
          end
      end
  end.

Fixpoint p_run (s : pstate) (sched : list (nat * nat)) : pstate :=
  match sched with
  | [] => s
  | (i, c) :: rest => match p_step s i c with Some s' => p_run s' rest | None => p_run s rest end
  end.

Definition p_init (progs : list (list pop)) : pstate :=
  mk_pstate (map (fun p => mk_pthread p [] []) progs) [] [].

(* the discipline: Get before any use, every read preceded by a write since the Get, nothing after Put *)
Fixpoint wf_prog (loc : list (nat * option Z)) (prog : list pop) : bool :=
  match prog with
  | [] => true
  | PGet k :: rest => match alookup k loc with None => wf_prog (aset k None loc) rest | Some _ => false end
  | PWrite k v :: rest => match alookup k loc with Some _ => wf_prog (aset k (Some v) loc) rest | None => false end
  | PRead k :: rest => match alookup k loc with Some (Some _) => wf_prog loc rest | _ => false end
  | PPut k :: rest => match alookup k loc with Some _ => wf_prog (aremove k loc) rest | None => false end
  end.
