(* Model/Hosts.v — hostsfile.Record.UnmarshalText / MarshalText (C07) and
   hostsfile.Parse's per-line logic (C08).

   Oracles (Section variables): [parse : gostring -> option A] is
   netip.Addr.UnmarshalText on a non-empty field, i.e. netip.ParseAddr;
   [valid : gostring -> bool] is "netutil.ValidateDomainName(name) == nil";
   [fmt : A -> gostring] is netip.Addr.MarshalText. *)
From Verif Require Import Base.GoPrim Base.Strings.

Definition is_space (c : Z) : bool := (c =? 32) || (c =? 9).      (* spaces = " \t" *)
Definition hash : Z := 35.

Fixpoint drop_spaces (s : gostring) : gostring :=                  (* TrimLeft(s, spaces) *)
  match s with
  | c :: t => if is_space c then drop_spaces t else s
  | [] => []
  end.

Definition trim_spaces (s : gostring) : gostring :=                (* Trim(s, spaces) *)
  frev (drop_spaces (frev (drop_spaces s))).

Fixpoint before_hash (s : gostring) : gostring :=                  (* data[:IndexByte(data, '#')] *)
  match s with
  | [] => []
  | c :: t => if c =? hash then [] else c :: before_hash t
  end.

(* the bytes up to the first space or tab, and what follows from there *)
Fixpoint span_field (s : gostring) : gostring * gostring :=
  match s with
  | [] => ([], [])
  | c :: t => if is_space c then ([], s) else let '(f, r) := span_field t in (c :: f, r)
  end.

(* cutField / cutStringField *)
Definition cut_field (s : gostring) : gostring * gostring :=
  let '(f, r) := span_field s in (f, drop_spaces r).

Inductive rec_err : Type :=
| ErrEmptyLine
| ErrNoHosts
| ErrAddr                       (* the address parse error *)
| ErrName (index : Z).          (* "name at index n: %w" wrapping the validator's *AddrError *)

Section Record.
  Variable A : Type.
  Variable parse : gostring -> option A.
  Variable valid : gostring -> bool.
  Variable fmt : A -> gostring.

  (* pass 1: count the leading valid names; stop at the first invalid one *)
  Fixpoint count_names (fuel : nat) (hosts : gostring) (n : Z) : Z * bool :=
    match fuel with
    | O => (n, true)
    | S fuel' =>
        let '(f, t) := cut_field hosts in
        match f with
        | [] => (n, true)
        | _ => if valid f then count_names fuel' t (n + 1) else (n, false)
        end
    end.

  (* pass 2: cut n fields *)
  Fixpoint take_names (n : nat) (hosts : gostring) : list gostring :=
    match n with
    | O => []
    | S n' => let '(f, t) := cut_field hosts in f :: take_names n' t
    end.

  (* what UnmarshalText leaves in the record, and the error *)
  Record unmarshal_res : Type := mk_unmarshal_res {
    ur_addr : option A;          (* Some = rec.Addr was set *)
    ur_names : option (list gostring);   (* Some = rec.Names was assigned *)
    ur_err : option rec_err
  }.

  Definition unmarshal_text (data : gostring) : unmarshal_res :=
    let d := trim_spaces (before_hash data) in
    let '(field, rest) := cut_field d in
    match field with
    | [] => mk_unmarshal_res None None (Some ErrEmptyLine)
    | _ =>
        match rest with
        | [] => mk_unmarshal_res None None (Some ErrNoHosts)
        | _ =>
            match parse field with
            | None => mk_unmarshal_res None None (Some ErrAddr)
            | Some a =>
                let '(n, ok) := count_names (S (length rest)) rest 0 in
                mk_unmarshal_res (Some a) (Some (take_names (Z.to_nat n) rest))
                                 (if ok then None else Some (ErrName n))
            end
        end
    end.

  (* MarshalText *)
  Definition marshal_text (a : A) (names : list gostring) : gostring :=
    fmt a ++ flat_map (fun n => 32 :: n) names.
End Record.

Arguments mk_unmarshal_res {A}.
Arguments ur_addr {A}.
Arguments ur_names {A}.
Arguments ur_err {A}.

(* ---- the hosts(5) field grammar: maximal runs of non-space bytes ---- *)
Fixpoint tokens_aux (cur : gostring) (s : gostring) : list gostring :=
  match s with
  | [] => match cur with [] => [] | _ => [rev cur] end
  | c :: t =>
      if is_space c then
        match cur with
        | [] => tokens_aux [] t
        | _ => rev cur :: tokens_aux [] t
        end
      else tokens_aux (c :: cur) t
  end.

Definition tokens (s : gostring) : list gostring := tokens_aux [] s.
