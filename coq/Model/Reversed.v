(* Model/Reversed.v — netutil/reversed.go with the Go indices (L1): every s[i]
   and s[a:b] goes through the bounds-checked primitives of Base/GoPrim.v, so an
   out-of-range access is the value [Panic] (C01, C04, C05).

   idna.ToASCII (inside ValidateDomainName) is an oracle: [a] is its answer for
   the input with one trailing dot removed. *)
From Verif Require Import Base.GoPrim Base.Strings Gen.Consts Gen.BytePreds Std.Netip Std.Net Model.Addr Model.Ip.

(* value or error (error TYPE only, as in Model/Addr.v) *)
Inductive res (A : Type) : Type := Ok (a : A) | Err (e : nerr).
Arguments Ok {A} a.
Arguments Err {A} e.

Definition suffix4 : gostring := c_arpaV4Suffix.              (* ".in-addr.arpa" *)
Definition suffix6 : gostring := c_arpaV6Suffix.              (* ".ip6.arpa" *)
Definition suffix4_nodot : gostring := tl c_arpaV4Suffix.     (* arpaV4Suffix[len("."):] *)
Definition suffix6_nodot : gostring := tl c_arpaV6Suffix.

(* strings.TrimSuffix(s, ".") *)
Definition trim_dot (s : gostring) : gostring :=
  match rev s with
  | 46 :: r => rev r
  | _ => s
  end.

(* makeAddrError(&err, ...) applied to a result *)
Definition wrap_addr {A} (r : res A) : res A :=
  match r with Ok a => Ok a | Err e => Err (EAddr e) end.

(* ---- full addresses ---- *)

(* ipv4FromReversed *)
Definition ipv4_from_reversed (s : gostring) : res (list Z) :=
  match parse_addr s with
  | None => Err EPlainErr
  | Some (P4 b) => Ok (rev b)
  | Some (P6 _ _) => Err (EAddr EPlainErr)
  end.

(* ipv6FromReversed: for i := range ip { ... } *)
Fixpoint ipv6_from_reversed_loop (n : nat) (i : Z) (arpa : gostring) (acc : list Z) : M (res (list Z)) :=
  match n with
  | O => Ret (Ok acc)
  | S n' =>
      let sidx := i * 4 in
      do c <- idx arpa sidx;
      let lo := gen_fromHexByte c in
      if lo =? 255 then Ret (Err ERune)
      else
        do c2 <- idx arpa (sidx + 2);
        let hi := gen_fromHexByte c2 in
        if hi =? 255 then Ret (Err ERune)
        else
          do d1 <- idx arpa (sidx + 1);
          do d3 <- idx arpa (sidx + 3);
          if negb (d1 =? 46) || negb (d3 =? 46) then Ret (Err EPlainErr)
          else
            (* ip[16-i-1] = hi<<4 | lo : filling from the end *)
            ipv6_from_reversed_loop n' (i + 1) arpa (((hi * 16) mod 256 + lo) :: acc)
  end.

Definition ipv6_from_reversed (arpa : gostring) : M (res (list Z)) :=
  ipv6_from_reversed_loop 16 0 arpa [].

(* ValidateDomainName(arpa) + replaceKind on failure *)
Definition validate_arpa {A} (a : option gostring) (k : M (res A)) : M (res A) :=
  do v <- validate_domain_name a;
  match v with
  | Some e => do e' <- replace_kind e; Ret (Err e')
  | None => k
  end.

(* IPFromReversedAddr *)
Definition ip_from_reversed_addr (input : gostring) (a : option gostring) : M (res (list Z)) :=
  let arpa0 := trim_dot input in
  validate_arpa a (
    let arpa := to_lower_ascii arpa0 in
    do r <-
      (if has_suffix suffix4 arpa then
         do ipstr <- slice_to arpa (len arpa - len suffix4);
         Ret (ipv4_from_reversed ipstr)
       else if has_suffix suffix6 arpa then
         if len arpa =? c_arpaV6MaxLen then ipv6_from_reversed arpa
         else Ret (Err ELen)
       else Ret (Err EPlainErr));
    Ret (wrap_addr r)).

(* IPToReversedAddr *)
Definition ip_to_reversed_addr (ip : list Z) : res gostring :=
  match to4 ip with
  | Some ip4 => Ok (flat_map (fun b => itoa b ++ [46]) (rev ip4) ++ suffix4_nodot)
  | None =>
      match to16 ip with
      | Some ip6 =>
          Ok (flat_map (fun b => [hexdigit (b mod 16); 46; hexdigit (b / 16); 46]) (rev ip6) ++ suffix6_nodot)
      | None => Err (EAddr EPlainErr)
      end
  end.

(* ---- prefixes ---- *)

Definition last_index_dot (s : gostring) : Z := last_idx_from 46 s 0 (-1).

(* ipv4NetFromReversed: for addr := arpa; addr != ""; addr = addr[:octetIdx-1] *)
Fixpoint ipv4_net_loop (fuel : nat) (addr : gostring) (ip : list Z) : M (res (list Z)) :=
  match fuel with
  | O => OutOfFuel
  | S fuel' =>
      if len addr =? 0 then Ret (Ok ip)
      else
        let oidx := last_index_dot addr + 1 in
        do lab <- slice_from addr oidx;
        match parse_uint8 lab with
        | None => Ret (Err EPlainErr)
        | Some v =>
            do c0 <- idx addr oidx;
            if (c0 =? 48) && (1 <? len addr - oidx) then Ret (Err (EAddr EPlainErr))
            else if 4 <=? len ip then Panic                         (* ip[l] with l >= 4 *)
            else
              let ip' := ip ++ [v] in
              if oidx =? 0 then Ret (Ok ip')
              else do addr' <- slice_to addr (oidx - 1);
                   ipv4_net_loop fuel' addr' ip'
        end
  end.

Definition pad_to (n : Z) (l : list Z) : list Z := l ++ zeros (n - len l).

Definition ipv4_net_from_reversed (arpa : gostring) : M (res (list Z * Z)) :=
  do r <- ipv4_net_loop (S (length arpa)) arpa [];
  match r with
  | Ok ip => Ret (Ok (pad_to 4 ip, len ip * 8))
  | Err e => Ret (Err e)
  end.

(* ipv6NetFromReversed *)
Fixpoint ipv6_net_loop (fuel : nat) (arpa : gostring) (nidx : Z) (nibbles : list Z) : M (res (list Z)) :=
  match fuel with
  | O => OutOfFuel
  | S fuel' =>
      if nidx <? 0 then Ret (Ok nibbles)
      else
        do d <- idx arpa (nidx + 1);
        if negb (d =? 46) then Ret (Err EPlainErr)
        else
          do c <- idx arpa nidx;
          let b := gen_fromHexByte c in
          if b =? 255 then Ret (Err ERune)
          else if 32 <=? len nibbles then Panic                      (* ip[l/2] with l >= 32 *)
          else ipv6_net_loop fuel' arpa (nidx - 2) (nibbles ++ [b])
  end.

Fixpoint pack_nibbles (ns : list Z) : list Z :=
  match ns with
  | [] => []
  | [h] => [h * 16]
  | h :: l :: t => (h * 16 + l) :: pack_nibbles t
  end.

Definition ipv6_net_from_reversed (arpa : gostring) : M (res (list Z * Z)) :=
  let nidx := len arpa - len suffix6 + 1 - 2 in
  if negb (Z.rem nidx 2 =? 0) then Ret (Err EPlainErr)
  else
    do r <- ipv6_net_loop (S (length arpa)) arpa nidx [];
    match r with
    | Ok ns => Ret (Ok (pad_to 16 (pack_nibbles ns), len ns * 4))
    | Err e => Ret (Err e)
    end.

Definition count_dots (s : gostring) : Z := len (filter (fun c => c =? 46) s).

(* subnetFromReversedV4 *)
Definition subnet_from_reversed_v4 (arpa : gostring) : M (res (list Z * Z)) :=
  let l := len arpa - len suffix4 + 1 in
  do arpa1 <- slice_to arpa l;
  if l =? 0 then ipv4_net_from_reversed arpa1
  else if negb (has_suffix [46] arpa1) then Ret (Err EPlainErr)
  else
    do arpa2 <- slice_to arpa1 (l - 1);
    let dots := count_dots arpa2 in
    if 3 <? dots then Ret (Err EPlainErr)
    else if dots =? 3 then
      match ipv4_from_reversed arpa2 with
      | Ok b => Ret (Ok (b, 32))
      | Err e => Ret (Err e)
      end
    else ipv4_net_from_reversed arpa2.

(* subnetFromReversedV6 *)
Definition subnet_from_reversed_v6 (arpa : gostring) : M (res (list Z * Z)) :=
  if len arpa =? c_arpaV6MaxLen then
    do r <- ipv6_from_reversed arpa;
    match r with
    | Ok b => Ret (Ok (b, 128))
    | Err e => Ret (Err e)
    end
  else if c_arpaV6MaxLen <? len arpa then Ret (Err ELen)
  else ipv6_net_from_reversed arpa.

(* PrefixFromReversedAddr *)
Definition prefix_from_reversed_addr (input : gostring) (a : option gostring) : M (res (list Z * Z)) :=
  let arpa0 := trim_dot input in
  validate_arpa a (
    let arpa := to_lower_ascii arpa0 in
    do r <-
      (if has_suffix suffix4_nodot arpa then subnet_from_reversed_v4 arpa
       else if has_suffix suffix6_nodot arpa then subnet_from_reversed_v6 arpa
       else Ret (Err EPlainErr));
    Ret (wrap_addr r)).

(* ---- extraction ---- *)

(* indexFirstV4Label *)
Fixpoint index_first_v4_loop (n : nat) (domain : gostring) (idx0 : Z) : M Z :=
  match n with
  | O => Ret idx0
  | S n' =>
      if idx0 <=? 0 then Ret idx0
      else
        do pre <- slice_to domain (idx0 - 1);
        let cur := last_index_dot pre + 1 in
        do lab <- slice domain cur (idx0 - 1);
        if negb (is_ipv4_label lab) then Ret idx0
        else index_first_v4_loop n' domain cur
  end.

Definition index_first_v4_label (domain : gostring) : M Z :=
  index_first_v4_loop 4 domain (len domain - len suffix4 + 1).

(* indexFirstV6Label *)
Fixpoint index_first_v6_loop (n : nat) (domain : gostring) (idx0 : Z) : M Z :=
  match n with
  | O => Ret idx0
  | S n' =>
      if idx0 <=? 0 then Ret idx0
      else
        let cur := idx0 - 2 in
        (* curIdx > 0 && domain[curIdx-1] != '.' || fromHexByte(domain[curIdx]) == 0xff *)
        do stop1 <- (if 0 <? cur then do p <- idx domain (cur - 1); Ret (negb (p =? 46)) else Ret false);
        if stop1 then Ret idx0
        else
          do c <- idx domain cur;
          if gen_fromHexByte c =? 255 then Ret idx0
          else index_first_v6_loop n' domain cur
  end.

Definition index_first_v6_label (domain : gostring) : M Z :=
  index_first_v6_loop 32 domain (len domain - len suffix6 + 1).

(* ExtractReversedAddr *)
Definition extract_reversed_addr (input : gostring) (a : option gostring) : M (res (list Z * Z)) :=
  let domain0 := trim_dot input in
  validate_arpa a (
    let domain := to_lower_ascii domain0 in
    do r <-
      (let go (v4 : bool) :=
         let suf_len := if v4 then len suffix4 else len suffix6 in
         do aligned <- (if len domain <? suf_len then Ret true
                        else do c <- idx domain (len domain - suf_len); Ret (c =? 46));
         if aligned then
           do i <- (if v4 then index_first_v4_label domain else index_first_v6_label domain);
           do arpa <- slice_from domain i;
           if v4 then subnet_from_reversed_v4 arpa else subnet_from_reversed_v6 arpa
         else Ret (Err EPlainErr) in
       if has_suffix suffix4_nodot domain then go true
       else if has_suffix suffix6_nodot domain then go false
       else Ret (Err EPlainErr));
    Ret (wrap_addr r)).
