(* Model/SubnetSet.v — netutil.IsLocallyServed / IsSpecialPurpose (C06).
   The byte predicates are NOT written here: they are regenerated from the Go
   source as formula data (Gen/SubnetSetImpl.v).  This file models only the
   exported wrappers' dispatch, whose shape astgen checks (gen_wrappers_ok). *)
From Verif Require Import Base.ByteFm Gen.DocTables Gen.SubnetSetImpl.

(* a netip.Addr: the zero value, an IPv4 address (4 bytes), or an IPv6 address
   (16 bytes; IPv4-mapped addresses and zoned addresses are IPv6 addresses,
   the zone plays no role) *)
Inductive naddr : Type :=
| AInvalid
| A4 (b : list Z)
| A6 (b : list Z) (zone : list Z).

Definition is_locally_served (a : naddr) : bool :=
  match a with
  | AInvalid => false
  | A4 b => eval gen_isLocallyServedV4 b
  | A6 b _ => eval gen_isLocallyServedV6 b
  end.

Definition is_special_purpose (a : naddr) : bool :=
  match a with
  | AInvalid => false
  | A4 b => eval gen_isSpecialPurposeV4 b
  | A6 b _ => eval gen_isSpecialPurposeV6 b
  end.

(* the specification: membership in the documented lists, bit by bit *)
Definition doc_locally_served (a : naddr) : bool :=
  match a with
  | AInvalid => false
  | A4 b => in_table b doc_ls4
  | A6 b _ => in_table b doc_ls6
  end.

Definition doc_special_purpose (a : naddr) : bool :=
  match a with
  | AInvalid => false
  | A4 b => in_table b doc_sp4
  | A6 b _ => in_table b doc_sp6
  end.

(* counterexample search used by the check when the equivalence no longer proves *)
Definition cex_ls4 (_ : unit) := find_cex 4 0 gen_isLocallyServedV4 (docfm doc_ls4).
Definition cex_ls6 (_ : unit) := find_cex 16 0 gen_isLocallyServedV6 (docfm doc_ls6).
Definition cex_sp4 (_ : unit) := find_cex 4 0 gen_isSpecialPurposeV4 (docfm doc_sp4).
Definition cex_sp6 (_ : unit) := find_cex 16 0 gen_isSpecialPurposeV6 (docfm doc_sp6).
