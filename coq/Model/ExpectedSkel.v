(* Model/ExpectedSkel.v — the operation skeletons (astgen's output at the pinned commit) that the
   transition systems of C17-C20 were written for.  Pinned by lib/pin_expected_skel.py; the
   theorems C1x_skeleton compare the skeletons regenerated on every run with these. *)
From Verif Require Import Base.Skel.
Open Scope string_scope.

Definition expected_ops_NewOnceConstructor : list sk :=
  [SPrim (POp "lit-field" "%1: &sync.Map{}"); SPrim (POp "lit-field" "%2: $1"); SReturn].

Definition expected_ops_OnceConstructor_Get : list sk :=
  [SPrim (POp "call" "@.%1.Load"); SPrim (POp "if" "$1"); SIf [SPrim (POp "call" "$2.(func() ($3 V))"); SReturn] []; SPrim (POp "make-chan" "1"); SPrim (POp "send" "$4"); SPrim (POp "func-begin" ""); SPrim (POp "recv" "$4"); SPrim (POp "if" "$5"); SIf [SPrim (POp "call" "@.%2"); SPrim (POp "close" "$4")] []; SReturn; SPrim (POp "func-end" ""); SPrim (POp "call" "@.%1.LoadOrStore"); SPrim (POp "call" "$2.(func() ($3 V))"); SReturn].

Definition expected_ops_NewChanSemaphore : list sk :=
  [SPrim (POp "make-chan" "$1"); SPrim (POp "lit-field" "%1: make(chan unit, $1)"); SReturn].

Definition expected_ops_ChanSemaphore_Acquire : list sk :=
  [SPrim (POp "select" "send @.%1 | recv $1.Done()"); SIf [SReturn] [SIf [SPrim (POp "call" "$1.Done"); SPrim (POp "call" "$1.Err"); SReturn] []]].

Definition expected_ops_ChanSemaphore_Release : list sk :=
  [SPrim (POp "select" "recv @.%1 | default"); SIf [] [SIf [] []]].

Definition expected_ops_SignalHandler_Handle : list sk :=
  [SPrim (POp "defer" "slogutil.RecoverAndLog"); SPrim (POp "range" "@.%2"); SLoop [SPrim (POp "call" "@.%1.InfoContext"); SPrim (POp "call" "osutil.IsShutdownSignal"); SPrim (POp "if" "osutil.IsShutdownSignal($1)"); SIf [SPrim (POp "call" "context.WithTimeout"); SPrim (POp "defer" "$2"); SPrim (POp "call" "@.shutdown"); SReturn] []]].

Definition expected_ops_SignalHandler_shutdownService : list sk :=
  [SPrim (POp "defer-func-begin" ""); SPrim (POp "call" "recover"); SPrim (POp "if" "$1 != nil"); SIf [SPrim (POp "call" "slogutil.PrintRecovered"); SPrim (POp "call" "fmt.Errorf")] []; SPrim (POp "defer-func-end" ""); SPrim (POp "call" "$2.Shutdown"); SReturn].

Definition expected_ops_SignalHandler_shutdown : list sk :=
  [SPrim (POp "call" "@.%1.InfoContext"); SPrim (POp "assign" "$1 = osutil.ExitCodeSuccess"); SPrim (POp "for" "$3 >= 0"); SLoop [SPrim (POp "call" "@.shutdownService"); SPrim (POp "if" "$2 == nil"); SIf [SPrim (POp "branch" "continue")] []; SPrim (POp "call" "@.%1.ErrorContext"); SPrim (POp "assign" "$1 = osutil.ExitCodeFailure")]; SPrim (POp "call" "@.%1.InfoContext"); SReturn].

Definition expected_ops_NewRefreshWorker : list sk :=
  [SPrim (POp "make-chan" "0"); SPrim (POp "lit-field" "%1: make(chan unit)"); SPrim (POp "call" "cmp.Or[contextutil.Constructor]"); SPrim (POp "lit-field" "%3: cmp.Or[contextutil.Constructor]( $1.ContextConstructor, contextutil.EmptyConstru"); SPrim (POp "call" "cmp.Or[timeutil.ClockAfter]"); SPrim (POp "lit-field" "%2: cmp.Or[timeutil.ClockAfter]($1.Clock, timeutil.SystemClock{})"); SPrim (POp "call" "cmp.Or[ErrorHandler]"); SPrim (POp "lit-field" "%4: cmp.Or[ErrorHandler]($1.ErrorHandler, IgnoreErrorHandler{})"); SPrim (POp "lit-field" "%5: $1.Refresher"); SPrim (POp "lit-field" "%6: $1.Schedule"); SPrim (POp "lit-field" "%7: $1.RefreshOnShutdown"); SReturn].

Definition expected_ops_RefreshWorker_Start : list sk :=
  [SPrim (POp "go" "@.refreshInALoop"); SReturn].

Definition expected_ops_RefreshWorker_refreshInALoop : list sk :=
  [SPrim (POp "defer" "slogutil.RecoverAndLogDefault"); SPrim (POp "call" "@.%2.Now"); SPrim (POp "call" "@.%6.UntilNext"); SPrim (POp "for" "true"); SLoop [SPrim (POp "select" "recv @.%1 | recv @.%2.After($1)"); SIf [SReturn] [SIf [SPrim (POp "call" "@.%2.After"); SPrim (POp "call" "@.refresh"); SPrim (POp "if" "$2 != nil"); SIf [SPrim (POp "call" "@.%4.Handle")] []; SPrim (POp "call" "@.%2.Now"); SPrim (POp "call" "@.%6.UntilNext")] []]]].

Definition expected_ops_RefreshWorker_refresh : list sk :=
  [SPrim (POp "call" "@.%3.New"); SPrim (POp "defer" "$1"); SPrim (POp "call" "@.%5.Refresh"); SReturn].

Definition expected_ops_RefreshWorker_Shutdown : list sk :=
  [SPrim (POp "close" "@.%1"); SPrim (POp "if" "@.%7"); SIf [SPrim (POp "call" "@.refresh"); SPrim (POp "if" "$1 != nil"); SIf [SPrim (POp "call" "fmt.Errorf"); SReturn] []] []; SReturn].

Definition expected_ops_NewJSONHybridHandler : list sk :=
  [SPrim (POp "call" "json.NewEncoder"); SPrim (POp "call" "$1.SetEscapeHTML"); SPrim (POp "assign" "$2 := slog.LevelInfo"); SPrim (POp "if" "$3 != nil && $3.Level != nil"); SIf [SPrim (POp "call" "$3.Level.Level")] []; SPrim (POp "lit-field" "%1: $2"); SPrim (POp "lit-field" "%2: $1"); SPrim (POp "func-begin" ""); SPrim (POp "call" "newBufferedTextHandler"); SReturn; SPrim (POp "func-end" ""); SPrim (POp "call" "syncutil.NewPool"); SPrim (POp "lit-field" "%3: syncutil.NewPool(func() ($4 *bufferedTextHandler) { return newBufferedTextHandle"); SPrim (POp "lit-field" "%4: &sync.Mutex{}"); SPrim (POp "lit-field" "%5: nil"); SReturn].

Definition expected_ops_JSONHybridHandler_Enabled : list sk :=
  [SPrim (POp "call" "@.%1.Level"); SReturn].

Definition expected_ops_JSONHybridHandler_Handle : list sk :=
  [SPrim (POp "call" "@.%3.Get"); SPrim (POp "defer" "@.%3.Put"); SPrim (POp "call" "$1.reset"); SPrim (POp "call" "$2.AddAttrs"); SPrim (POp "call" "$1.handler.Handle"); SPrim (POp "if" "$3 != nil"); SIf [SPrim (POp "call" "fmt.Errorf"); SReturn] []; SPrim (POp "call" "$1.buffer.Bytes"); SPrim (POp "call" "byteString"); SPrim (POp "assign" "$4 = $4[:len($4)-1]"); SPrim (POp "call" "newJSONHybridMessage"); SPrim (POp "call" "@.%4.Lock"); SPrim (POp "defer" "@.%4.Unlock"); SPrim (POp "call" "@.%2.Encode"); SReturn].

Definition expected_ops_newJSONHybridMessage : list sk :=
  [SPrim (POp "assign" "$1 := ""NORMAL"""); SPrim (POp "if" "$2 >= slog.LevelError"); SIf [SPrim (POp "assign" "$1 = ""ERROR""")] []; SPrim (POp "lit-field" "Severity: $1"); SPrim (POp "lit-field" "Message: $3"); SReturn].

Definition expected_ops_JSONHybridHandler_WithAttrs : list sk :=
  [SPrim (POp "lit-field" "%1: @.%1"); SPrim (POp "lit-field" "%2: @.%2"); SPrim (POp "lit-field" "%3: @.%3"); SPrim (POp "lit-field" "%4: @.%4"); SPrim (POp "call" "slices.Clip"); SPrim (POp "append" "slices.Clip(h.%5)"); SPrim (POp "lit-field" "%5: append(slices.Clip(h.%5), $1...)"); SReturn].

Definition expected_ops_byteString_MarshalText : list sk :=
  [SReturn].

Definition expected_ops_newBufferedTextHandler : list sk :=
  [SPrim (POp "call" "bytes.NewBuffer"); SPrim (POp "lit-field" "%1: $1"); SPrim (POp "call" "slog.NewTextHandler"); SPrim (POp "lit-field" "%2: slog.NewTextHandler($1, $2)"); SReturn].

Definition expected_ops_bufferedTextHandler_reset : list sk :=
  [SPrim (POp "call" "@.%1.Reset")].

Definition expected_ops_NewPool : list sk :=
  [SPrim (POp "if" "$1 == nil"); SIf [SPrim (POp "call" "fmt.Errorf")] []; SPrim (POp "func-begin" ""); SPrim (POp "call" "$1"); SReturn; SPrim (POp "func-end" ""); SPrim (POp "lit-field" "%1: &sync.Pool{ New: func() ($2 any) { return $1() }, }"); SReturn].

Definition expected_ops_Pool_Get : list sk :=
  [SPrim (POp "call" "@.%1.Get"); SReturn].

Definition expected_ops_Pool_Put : list sk :=
  [SPrim (POp "call" "@.%1.Put")].

Definition expected_ops_NewSlicePool : list sk :=
  [SPrim (POp "func-begin" ""); SReturn; SPrim (POp "func-end" ""); SPrim (POp "call" "NewPool"); SReturn].

Definition expected_ops_httputil_Wrap : list sk :=
  [SPrim (POp "assign" "$1 = $2"); SPrim (POp "for" "$4 >= 0"); SLoop [SPrim (POp "call" "$3.Wrap")]; SReturn].

Definition expected_ops_CopyRequestTo : list sk :=
  [SPrim (POp "call" "$1.WithContext"); SPrim (POp "deref-write" "$2")].

Definition expected_ops_NewLogMiddleware : list sk :=
  [SPrim (POp "call" "syncutil.NewSlicePool[slog.Attr]"); SPrim (POp "lit-field" "%1: syncutil.NewSlicePool[slog.Attr](4)"); SPrim (POp "func-begin" ""); SReturn; SPrim (POp "func-end" ""); SPrim (POp "call" "syncutil.NewPool"); SPrim (POp "lit-field" "%2: syncutil.NewPool(func() ($1 *http.Request) { return &http.Request{} })"); SPrim (POp "func-begin" ""); SReturn; SPrim (POp "func-end" ""); SPrim (POp "call" "syncutil.NewPool"); SPrim (POp "lit-field" "%3: syncutil.NewPool(func() ($2 *CodeRecorderResponseWriter) { return &CodeRecorderR"); SPrim (POp "lit-field" "%4: $3"); SPrim (POp "lit-field" "%5: $4"); SReturn].

Definition expected_ops_LogMiddleware_Wrap : list sk :=
  [SPrim (POp "func-begin" ""); SPrim (POp "call" "time.Now"); SPrim (POp "call" "@.attrsSlicePtr"); SPrim (POp "defer" "@.%1.Put"); SPrim (POp "call" "@.%4.Handler"); SPrim (POp "call" "@.%4.Handler().WithAttrs"); SPrim (POp "call" "slog.New"); SPrim (POp "call" "$1.Context"); SPrim (POp "call" "slogutil.ContextWithLogger"); SPrim (POp "call" "@.%2.Get"); SPrim (POp "defer" "@.%2.Put"); SPrim (POp "call" "CopyRequestTo"); SPrim (POp "call" "@.%3.Get"); SPrim (POp "defer" "@.%3.Put"); SPrim (POp "call" "$2.Reset"); SPrim (POp "call" "$3.Log"); SPrim (POp "defer" "@.logFinished"); SPrim (POp "call" "$4.ServeHTTP"); SPrim (POp "call" "$2.SetImplicitSuccess"); SPrim (POp "func-end" ""); SPrim (POp "call" "http.HandlerFunc"); SReturn].

Definition expected_ops_LogMiddleware_logFinished : list sk :=
  [SPrim (POp "call" "$1.Enabled"); SPrim (POp "if" "$1.Enabled($2, mw.%5)"); SIf [SPrim (POp "call" "time.Since"); SPrim (POp "call" "timeutil.Duration"); SPrim (POp "call" "$1.Log")] []].

Definition expected_ops_LogMiddleware_attrsSlicePtr : list sk :=
  [SPrim (POp "call" "@.%1.Get"); SPrim (POp "call" "slog.String"); SPrim (POp "index-write" "$1"); SPrim (POp "call" "slog.String"); SPrim (POp "index-write" "$1"); SPrim (POp "call" "slog.String"); SPrim (POp "index-write" "$1"); SPrim (POp "call" "slog.String"); SPrim (POp "index-write" "$1"); SReturn].

Definition expected_ops_CRW_SetImplicitSuccess : list sk :=
  [SPrim (POp "call" "cmp.Or"); SPrim (POp "field-write" "@.%2")].

Definition expected_ops_CRW_Reset : list sk :=
  [SPrim (POp "field-write" "@.%1"); SPrim (POp "field-write" "@.%2")].

Definition expected_ops_CRW_Header : list sk :=
  [SPrim (POp "call" "@.%1.Header"); SReturn].

Definition expected_ops_CRW_Write : list sk :=
  [SPrim (POp "call" "@.%1.Write"); SReturn].

Definition expected_ops_CRW_WriteHeader : list sk :=
  [SPrim (POp "field-write" "@.%2"); SPrim (POp "call" "@.%1.WriteHeader")].

Definition expected_ops_CRW_Code : list sk :=
  [SReturn].

Close Scope string_scope.
