(* Model/ExpectedSkel.v — the operation skeletons (astgen's output at the pinned commit) that the
   transition systems of C17-C20 were written for.  Pinned by lib/pin_expected_skel.py; the
   theorems C1x_skeleton compare the skeletons regenerated on every run with these. *)
From Verif Require Import Base.Skel.
Open Scope string_scope.

Definition expected_ops_NewOnceConstructor : list sk :=
  [SPrim (POp "lit-field" "loaders: &sync.Map{}"); SPrim (POp "lit-field" "new: newFunc"); SReturn].

Definition expected_ops_OnceConstructor_Get : list sk :=
  [SPrim (POp "call" "@.loaders.Load"); SPrim (POp "if" "inited"); SIf [SPrim (POp "call" "loaderVal.(func() (v V))"); SReturn] []; SPrim (POp "make-chan" "1"); SPrim (POp "send" "done"); SPrim (POp "func-begin" ""); SPrim (POp "recv" "done"); SPrim (POp "if" "ok"); SIf [SPrim (POp "call" "@.new"); SPrim (POp "close" "done")] []; SReturn; SPrim (POp "func-end" ""); SPrim (POp "call" "@.loaders.LoadOrStore"); SPrim (POp "call" "loaderVal.(func() (v V))"); SReturn].

Definition expected_ops_NewChanSemaphore : list sk :=
  [SPrim (POp "make-chan" "maxRes"); SPrim (POp "lit-field" "c: make(chan unit, maxRes)"); SReturn].

Definition expected_ops_ChanSemaphore_Acquire : list sk :=
  [SPrim (POp "select" "send @.c | recv ctx.Done()"); SIf [SReturn] [SIf [SPrim (POp "call" "ctx.Done"); SPrim (POp "call" "ctx.Err"); SReturn] []]].

Definition expected_ops_ChanSemaphore_Release : list sk :=
  [SPrim (POp "select" "recv @.c | default"); SIf [] [SIf [] []]].

Definition expected_ops_SignalHandler_Handle : list sk :=
  [SPrim (POp "defer" "slogutil.RecoverAndLog"); SPrim (POp "range" "@.signal"); SLoop [SPrim (POp "call" "@.logger.InfoContext"); SPrim (POp "call" "osutil.IsShutdownSignal"); SPrim (POp "if" "osutil.IsShutdownSignal(sig)"); SIf [SPrim (POp "call" "context.WithTimeout"); SPrim (POp "defer" "cancel"); SPrim (POp "call" "@.shutdown"); SReturn] []]].

Definition expected_ops_SignalHandler_shutdownService : list sk :=
  [SPrim (POp "defer-func-begin" ""); SPrim (POp "call" "recover"); SPrim (POp "if" "v != nil"); SIf [SPrim (POp "call" "slogutil.PrintRecovered"); SPrim (POp "call" "fmt.Errorf")] []; SPrim (POp "defer-func-end" ""); SPrim (POp "call" "s.Shutdown"); SReturn].

Definition expected_ops_SignalHandler_shutdown : list sk :=
  [SPrim (POp "call" "@.logger.InfoContext"); SPrim (POp "assign" "status = osutil.ExitCodeSuccess"); SPrim (POp "for" "i >= 0"); SLoop [SPrim (POp "call" "@.shutdownService"); SPrim (POp "if" "err == nil"); SIf [SPrim (POp "branch" "continue")] []; SPrim (POp "call" "@.logger.ErrorContext"); SPrim (POp "assign" "status = osutil.ExitCodeFailure")]; SPrim (POp "call" "@.logger.InfoContext"); SReturn].

Definition expected_ops_NewRefreshWorker : list sk :=
  [SPrim (POp "make-chan" "0"); SPrim (POp "lit-field" "done: make(chan unit)"); SPrim (POp "call" "cmp.Or[contextutil.Constructor]"); SPrim (POp "lit-field" "contextCons: cmp.Or[contextutil.Constructor]( c.ContextConstructor, contextutil.EmptyConstruc"); SPrim (POp "call" "cmp.Or[timeutil.ClockAfter]"); SPrim (POp "lit-field" "clock: cmp.Or[timeutil.ClockAfter](c.Clock, timeutil.SystemClock{})"); SPrim (POp "call" "cmp.Or[ErrorHandler]"); SPrim (POp "lit-field" "errHdlr: cmp.Or[ErrorHandler](c.ErrorHandler, IgnoreErrorHandler{})"); SPrim (POp "lit-field" "refr: c.Refresher"); SPrim (POp "lit-field" "schedule: c.Schedule"); SPrim (POp "lit-field" "refrOnShutdown: c.RefreshOnShutdown"); SReturn].

Definition expected_ops_RefreshWorker_Start : list sk :=
  [SPrim (POp "go" "@.refreshInALoop"); SReturn].

Definition expected_ops_RefreshWorker_refreshInALoop : list sk :=
  [SPrim (POp "defer" "slogutil.RecoverAndLogDefault"); SPrim (POp "call" "@.clock.Now"); SPrim (POp "call" "@.schedule.UntilNext"); SPrim (POp "for" "true"); SLoop [SPrim (POp "select" "recv @.done | recv @.clock.After(waitDur)"); SIf [SReturn] [SIf [SPrim (POp "call" "@.clock.After"); SPrim (POp "call" "@.refresh"); SPrim (POp "if" "err != nil"); SIf [SPrim (POp "call" "@.errHdlr.Handle")] []; SPrim (POp "call" "@.clock.Now"); SPrim (POp "call" "@.schedule.UntilNext")] []]]].

Definition expected_ops_RefreshWorker_refresh : list sk :=
  [SPrim (POp "call" "@.contextCons.New"); SPrim (POp "defer" "cancel"); SPrim (POp "call" "@.refr.Refresh"); SReturn].

Definition expected_ops_RefreshWorker_Shutdown : list sk :=
  [SPrim (POp "close" "@.done"); SPrim (POp "if" "@.refrOnShutdown"); SIf [SPrim (POp "call" "@.refresh"); SPrim (POp "if" "err != nil"); SIf [SPrim (POp "call" "fmt.Errorf"); SReturn] []] []; SReturn].

Definition expected_ops_NewJSONHybridHandler : list sk :=
  [SPrim (POp "call" "json.NewEncoder"); SPrim (POp "call" "enc.SetEscapeHTML"); SPrim (POp "assign" "lvl := slog.LevelInfo"); SPrim (POp "if" "opts != nil && opts.Level != nil"); SIf [SPrim (POp "call" "opts.Level.Level")] []; SPrim (POp "lit-field" "level: lvl"); SPrim (POp "lit-field" "encoder: enc"); SPrim (POp "func-begin" ""); SPrim (POp "call" "newBufferedTextHandler"); SReturn; SPrim (POp "func-end" ""); SPrim (POp "call" "syncutil.NewPool"); SPrim (POp "lit-field" "bufTextPool: syncutil.NewPool(func() (bufTextHdlr *bufferedTextHandler) { return newBufferedT"); SPrim (POp "lit-field" "mu: &sync.Mutex{}"); SPrim (POp "lit-field" "textAttrs: nil"); SReturn].

Definition expected_ops_JSONHybridHandler_Enabled : list sk :=
  [SPrim (POp "call" "@.level.Level"); SReturn].

Definition expected_ops_JSONHybridHandler_Handle : list sk :=
  [SPrim (POp "call" "@.bufTextPool.Get"); SPrim (POp "defer" "@.bufTextPool.Put"); SPrim (POp "call" "bufTextHdlr.reset"); SPrim (POp "call" "r.AddAttrs"); SPrim (POp "call" "bufTextHdlr.handler.Handle"); SPrim (POp "if" "err != nil"); SIf [SPrim (POp "call" "fmt.Errorf"); SReturn] []; SPrim (POp "call" "bufTextHdlr.buffer.Bytes"); SPrim (POp "call" "byteString"); SPrim (POp "assign" "msg = msg[:len(msg)-1]"); SPrim (POp "call" "newJSONHybridMessage"); SPrim (POp "call" "@.mu.Lock"); SPrim (POp "defer" "@.mu.Unlock"); SPrim (POp "call" "@.encoder.Encode"); SReturn].

Definition expected_ops_newJSONHybridMessage : list sk :=
  [SPrim (POp "assign" "severity := ""NORMAL"""); SPrim (POp "if" "lvl >= slog.LevelError"); SIf [SPrim (POp "assign" "severity = ""ERROR""")] []; SPrim (POp "lit-field" "Severity: severity"); SPrim (POp "lit-field" "Message: msg"); SReturn].

Definition expected_ops_JSONHybridHandler_WithAttrs : list sk :=
  [SPrim (POp "lit-field" "level: @.level"); SPrim (POp "lit-field" "encoder: @.encoder"); SPrim (POp "lit-field" "bufTextPool: @.bufTextPool"); SPrim (POp "lit-field" "mu: @.mu"); SPrim (POp "call" "slices.Clip"); SPrim (POp "append" "slices.Clip(h.textAttrs)"); SPrim (POp "lit-field" "textAttrs: append(slices.Clip(h.textAttrs), attrs...)"); SReturn].

Definition expected_ops_byteString_MarshalText : list sk :=
  [SReturn].

Definition expected_ops_newBufferedTextHandler : list sk :=
  [SPrim (POp "call" "bytes.NewBuffer"); SPrim (POp "lit-field" "buffer: buf"); SPrim (POp "call" "slog.NewTextHandler"); SPrim (POp "lit-field" "handler: slog.NewTextHandler(buf, handlerOpts)"); SReturn].

Definition expected_ops_bufferedTextHandler_reset : list sk :=
  [SPrim (POp "call" "@.buffer.Reset")].

Definition expected_ops_NewPool : list sk :=
  [SPrim (POp "if" "newFunc == nil"); SIf [SPrim (POp "call" "fmt.Errorf")] []; SPrim (POp "func-begin" ""); SPrim (POp "call" "newFunc"); SReturn; SPrim (POp "func-end" ""); SPrim (POp "lit-field" "pool: &sync.Pool{ New: func() (v any) { return newFunc() }, }"); SReturn].

Definition expected_ops_Pool_Get : list sk :=
  [SPrim (POp "call" "@.pool.Get"); SReturn].

Definition expected_ops_Pool_Put : list sk :=
  [SPrim (POp "call" "@.pool.Put")].

Definition expected_ops_NewSlicePool : list sk :=
  [SPrim (POp "func-begin" ""); SReturn; SPrim (POp "func-end" ""); SPrim (POp "call" "NewPool"); SReturn].

Definition expected_ops_httputil_Wrap : list sk :=
  [SPrim (POp "assign" "wrapped = h"); SPrim (POp "for" "i >= 0"); SLoop [SPrim (POp "call" "m.Wrap")]; SReturn].

Definition expected_ops_CopyRequestTo : list sk :=
  [SPrim (POp "call" "src.WithContext"); SPrim (POp "deref-write" "dst")].

Definition expected_ops_NewLogMiddleware : list sk :=
  [SPrim (POp "call" "syncutil.NewSlicePool[slog.Attr]"); SPrim (POp "lit-field" "attrPool: syncutil.NewSlicePool[slog.Attr](logMwAttrNum)"); SPrim (POp "func-begin" ""); SReturn; SPrim (POp "func-end" ""); SPrim (POp "call" "syncutil.NewPool"); SPrim (POp "lit-field" "reqPool: syncutil.NewPool(func() (r *http.Request) { return &http.Request{} })"); SPrim (POp "func-begin" ""); SReturn; SPrim (POp "func-end" ""); SPrim (POp "call" "syncutil.NewPool"); SPrim (POp "lit-field" "rwPool: syncutil.NewPool(func() (rw *CodeRecorderResponseWriter) { return &CodeRecorderR"); SPrim (POp "lit-field" "logger: l"); SPrim (POp "lit-field" "lvl: lvl"); SReturn].

Definition expected_ops_LogMiddleware_Wrap : list sk :=
  [SPrim (POp "func-begin" ""); SPrim (POp "call" "time.Now"); SPrim (POp "call" "@.attrsSlicePtr"); SPrim (POp "defer" "@.attrPool.Put"); SPrim (POp "call" "@.logger.Handler"); SPrim (POp "call" "@.logger.Handler().WithAttrs"); SPrim (POp "call" "slog.New"); SPrim (POp "call" "r.Context"); SPrim (POp "call" "slogutil.ContextWithLogger"); SPrim (POp "call" "@.reqPool.Get"); SPrim (POp "defer" "@.reqPool.Put"); SPrim (POp "call" "CopyRequestTo"); SPrim (POp "call" "@.rwPool.Get"); SPrim (POp "defer" "@.rwPool.Put"); SPrim (POp "call" "rw.Reset"); SPrim (POp "call" "l.Log"); SPrim (POp "defer" "@.logFinished"); SPrim (POp "call" "h.ServeHTTP"); SPrim (POp "call" "rw.SetImplicitSuccess"); SPrim (POp "func-end" ""); SPrim (POp "call" "http.HandlerFunc"); SReturn].

Definition expected_ops_LogMiddleware_logFinished : list sk :=
  [SPrim (POp "call" "l.Enabled"); SPrim (POp "if" "l.Enabled(ctx, mw.lvl)"); SIf [SPrim (POp "call" "time.Since"); SPrim (POp "call" "timeutil.Duration"); SPrim (POp "call" "l.Log")] []].

Definition expected_ops_LogMiddleware_attrsSlicePtr : list sk :=
  [SPrim (POp "call" "@.attrPool.Get"); SPrim (POp "call" "slog.String"); SPrim (POp "index-write" "attrs"); SPrim (POp "call" "slog.String"); SPrim (POp "index-write" "attrs"); SPrim (POp "call" "slog.String"); SPrim (POp "index-write" "attrs"); SPrim (POp "call" "slog.String"); SPrim (POp "index-write" "attrs"); SReturn].

Definition expected_ops_CRW_SetImplicitSuccess : list sk :=
  [SPrim (POp "call" "cmp.Or"); SPrim (POp "field-write" "@.code")].

Definition expected_ops_CRW_Reset : list sk :=
  [SPrim (POp "field-write" "@.rw"); SPrim (POp "field-write" "@.code")].

Definition expected_ops_CRW_Header : list sk :=
  [SPrim (POp "call" "@.rw.Header"); SReturn].

Definition expected_ops_CRW_Write : list sk :=
  [SPrim (POp "call" "@.rw.Write"); SReturn].

Definition expected_ops_CRW_WriteHeader : list sk :=
  [SPrim (POp "field-write" "@.code"); SPrim (POp "call" "@.rw.WriteHeader")].

Definition expected_ops_CRW_Code : list sk :=
  [SReturn].

Close Scope string_scope.
