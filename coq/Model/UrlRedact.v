(* Model/UrlRedact.v — urlutil.RedactUserinfo / RedactUserinfoInURLError (C16). *)
From Verif Require Import Base.GoPrim.

(* url.Userinfo: username, password, passwordSet *)
Record userinfo : Type := mk_userinfo { ui_name : gostring; ui_pass : gostring; ui_pass_set : bool }.

(* every field of url.URL (go1.24) *)
Record gourl : Type := mk_gourl {
  u_scheme : gostring; u_opaque : gostring; u_user : option userinfo; u_host : gostring;
  u_path : gostring; u_raw_path : gostring; u_omit_host : bool; u_force_query : bool;
  u_raw_query : gostring; u_fragment : gostring; u_raw_fragment : gostring
}.

Definition x5 : gostring := [120; 120; 120; 120; 120].   (* "xxxxx" *)
Definition redacted_userinfo : userinfo := mk_userinfo x5 x5 true.

Definition with_user (u : gourl) (ui : option userinfo) : gourl :=
  mk_gourl (u_scheme u) (u_opaque u) ui (u_host u) (u_path u) (u_raw_path u)
           (u_omit_host u) (u_force_query u) (u_raw_query u) (u_fragment u) (u_raw_fragment u).

(* result and "is the very same pointer as the argument" *)
Definition redact (u : gourl) : gourl * bool :=
  match u_user u with
  | None => (u, true)
  | Some _ => (with_user u (Some redacted_userinfo), false)
  end.

(* the shapes of error RedactUserinfoInURLError can be handed *)
Inductive uerr : Type :=
| UENil
| UEUrl (op : gostring) (urltext : gostring)   (* a top-level *url.Error *)
| UEOther                                       (* any other error type, including one WRAPPING a *url.Error *)
.

Section Err.
  (* URL.String is external: any function *)
  Variable url_string : gourl -> gostring.

  Definition redact_err (u : gourl) (e : uerr) : uerr :=
    match e with
    | UEUrl op txt =>
        match u_user u with
        | None => e
        | Some _ => UEUrl op (url_string (fst (redact u)))
        end
    | _ => e
    end.
End Err.
