(* Model/JsonHybrid.v — slogutil.JSONHybridHandler (C19): the line it writes for a
   record, Enabled, the attribute slices of WithAttrs derivations (Go's append
   over a heap of arrays, slices.Clip), and the interleaving of concurrent Handle
   calls over the shared buffer pool, mutex and encoder. *)
From Verif Require Import Base.GoPrim Base.Strings Std.Utf8 Std.Json.

(* ================= one record ================= *)

(* newJSONHybridMessage: slog.LevelError = 8 *)
Definition severity (lvl : Z) : gostring :=
  if 8 <=? lvl then [69; 82; 82; 79; 82]                 (* ERROR *)
  else [78; 79; 82; 77; 65; 76].                         (* NORMAL *)

Definition line_prefix (lvl : Z) : gostring :=
  (* {"severity":" ... ","message": *)
  [123; 34; 115; 101; 118; 101; 114; 105; 116; 121; 34; 58; 34] ++ severity lvl ++
  [34; 44; 34; 109; 101; 115; 115; 97; 103; 101; 34; 58].

(* Handle: [text] is what the pooled slog.TextHandler rendered for the record with the handler's
   attributes appended; msg = msg[:len(msg)-1]; json.Encoder.Encode (HTML escaping off) of
   {Severity, Message} followed by a newline *)
Definition hybrid_line (lvl : Z) (text : gostring) : M gostring :=
  do msg <- slice_to text (len text - 1);
  Ret (line_prefix lvl ++ jquote false msg ++ [125; 10]).

(* Enabled *)
Definition enabled (handler_level lvl : Z) : bool := handler_level <=? lvl.

(* ================= WithAttrs: slices over a heap of arrays ================= *)

Record gslice : Type := mk_slice { sl_arr : nat; sl_len : nat; sl_cap : nat }.

(* an array is the list of its cells, as long as its capacity *)
Definition heap : Type := list (list Z).

Definition contents (h : heap) (s : gslice) : list Z := firstn (sl_len s) (nth (sl_arr s) h []).

Fixpoint write_at (cells : list Z) (i : nat) (xs : list Z) : list Z :=
  match xs with
  | [] => cells
  | x :: xs' => write_at (firstn i cells ++ x :: skipn (S i) cells) (S i) xs'
  end.

Fixpoint set_arr (h : heap) (a : nat) (cells : list Z) : heap :=
  match h, a with
  | [], _ => []
  | _ :: t, O => cells :: t
  | c :: t, S a' => c :: set_arr t a' cells
  end.

(* append(s, xs...): in place when the capacity suffices, else a fresh array whose capacity is
   chosen by the runtime ([grow n >= n], otherwise arbitrary) *)
Definition append_slice (grow : nat -> nat) (h : heap) (s : gslice) (xs : list Z) : heap * gslice :=
  let n := (sl_len s + length xs)%nat in
  if Nat.leb n (sl_cap s) then
    (set_arr h (sl_arr s) (write_at (nth (sl_arr s) h []) (sl_len s) xs), mk_slice (sl_arr s) n (sl_cap s))
  else
    (h ++ [contents h s ++ xs ++ repeat 0 (grow n - n)], mk_slice (length h) n (grow n)).

(* slices.Clip *)
Definition clip (s : gslice) : gslice := mk_slice (sl_arr s) (sl_len s) (sl_len s).

(* WithAttrs; [use_clip = false] is the variant without slices.Clip *)
Definition with_attrs (use_clip : bool) (grow : nat -> nat) (h : heap) (s : gslice) (xs : list Z) : heap * gslice :=
  append_slice grow h (if use_clip then clip s else s) xs.

(* a history of derivations: handler 0 is the root (nil attributes); each step derives a new
   handler from an existing one *)
Definition nil_slice : gslice := mk_slice 0 0 0.

Fixpoint derive_all (use_clip : bool) (grow : nat -> nat) (h : heap) (hs : list gslice) (ops : list (nat * list Z))
  : heap * list gslice :=
  match ops with
  | [] => (h, hs)
  | (parent, xs) :: rest =>
      let '(h', s') := with_attrs use_clip grow h (nth parent hs nil_slice) xs in
      derive_all use_clip grow h' (hs ++ [s']) rest
  end.

(* the specification: the attributes along the path from the root *)
Fixpoint path_attrs (acc : list (list Z)) (ops : list (nat * list Z)) : list (list Z) :=
  match ops with
  | [] => acc
  | (parent, xs) :: rest => path_attrs (acc ++ [nth parent acc [] ++ xs]) rest
  end.

(* ================= concurrent Handle calls ================= *)

(* where a Handle call is; b = the pooled buffer it holds *)
Inductive hpc : Type :=
| HGet                     (* bufTextPool.Get() *)
| HReset (b : nat)         (* bufTextHdlr.reset() *)
| HRender (b : nat)        (* r.AddAttrs; bufTextHdlr.handler.Handle: the text goes into the buffer *)
| HLock (b : nat)          (* msg aliases the buffer's bytes; h.mu.Lock() *)
| HEncode (b : nat)        (* h.encoder.Encode(data): one Write of the whole line *)
| HUnlock (b : nat)        (* deferred h.mu.Unlock() *)
| HPut (b : nat)           (* deferred bufTextPool.Put *)
| HDone.

Record hstate : Type := mk_hstate {
  h_pcs : list hpc;                                (* thread i handles record i *)
  h_bufs : list (gostring * option nat);           (* buffer content, the thread that holds it *)
  h_mu : option nat;                               (* who holds the mutex *)
  h_out : list (nat * gostring)                    (* what the writer received: (thread, bytes), oldest first *)
}.

Section Conc.
  Variable render : nat -> gostring.               (* the text of record i, trailing newline included *)
  Variable level : nat -> Z.

  (* the line Encode writes, computed from the buffer's bytes AT THAT MOMENT *)
  Definition line_of (i : nat) (buf : gostring) : gostring :=
    match hybrid_line (level i) buf with Ret l => l | _ => [] end.

  Fixpoint upd {A} (l : list A) (i : nat) (x : A) : list A :=
    match l, i with
    | [], _ => []
    | _ :: t, O => x :: t
    | h :: t, S i' => h :: upd t i' x
    end.

  Definition buf_content (s : hstate) (b : nat) : gostring := fst (nth b (h_bufs s) ([], None)).

  (* one atomic step of thread i; [choice]: which pooled buffer Get returns (sync.Pool may return
     any free one, or a new one) *)
  Definition h_step (s : hstate) (i choice : nat) : option hstate :=
    match nth_error (h_pcs s) i with
    | None => None
    | Some pc =>
        let go pc' bufs mu out := Some (mk_hstate (upd (h_pcs s) i pc') bufs mu out) in
        match pc with
        | HGet =>
            match nth_error (h_bufs s) choice with
            | Some (c, None) => go (HReset choice) (upd (h_bufs s) choice (c, Some i)) (h_mu s) (h_out s)
            | _ => go (HReset (length (h_bufs s))) (h_bufs s ++ [([], Some i)]) (h_mu s) (h_out s)
            end
        | HReset b => go (HRender b) (upd (h_bufs s) b ([], Some i)) (h_mu s) (h_out s)
        | HRender b => go (HLock b) (upd (h_bufs s) b (buf_content s b ++ render i, Some i)) (h_mu s) (h_out s)
        | HLock b => match h_mu s with
                     | None => go (HEncode b) (h_bufs s) (Some i) (h_out s)
                     | Some _ => None
                     end
        | HEncode b => go (HUnlock b) (h_bufs s) (h_mu s) (h_out s ++ [(i, line_of i (buf_content s b))])
        | HUnlock b => go (HPut b) (h_bufs s) None (h_out s)
        | HPut b => go HDone (upd (h_bufs s) b (buf_content s b, None)) (h_mu s) (h_out s)
        | HDone => None
        end
    end.

  Fixpoint h_run (s : hstate) (sched : list (nat * nat)) : hstate :=
    match sched with
    | [] => s
    | (i, c) :: rest => match h_step s i c with Some s' => h_run s' rest | None => h_run s rest end
    end.

  Definition h_init (n : nat) : hstate := mk_hstate (repeat HGet n) [] None [].
End Conc.
