(* Model/AddrConv.v — netutil/addrconv.go (IPToAddr, IPToAddrNoMapped,
   IPNetToPrefix, IPNetToPrefixNoMapped, NetAddrToAddrPort) and netutil/sort.go
   (PreferIPv4 / PreferIPv6), over models of the net / net/netip functions they
   delegate to (C12).

   A net.IP / net.IPMask is [option (list Z)] where [None] is the nil slice.
   A netip.Addr is [option paddr], [None] being the zero (invalid) Addr. *)
From Verif Require Import Base.GoPrim Base.Strings Base.ByteFm Std.Netip Std.Net.

Inductive fam : Type := F4 | F6.

Definition addr_bytes (a : paddr) : list Z := match a with P4 b => b | P6 b _ => b end.
Definition addr_zone (a : paddr) : gostring := match a with P4 _ => [] | P6 _ z => z end.
Definition bit_len (a : paddr) : Z := match a with P4 _ => 32 | P6 _ _ => 128 end.
Definition is4 (a : paddr) : bool := match a with P4 _ => true | P6 _ _ => false end.
Definition is4in6 (a : paddr) : bool :=
  match a with P4 _ => false | P6 b _ => eqb_str (firstn 12 b) v4_in_v6_prefix end.
Definition unmap (a : paddr) : paddr :=
  if is4in6 a then P4 (skipn 12 (addr_bytes a)) else a.

(* netip.AddrFromSlice *)
Definition addr_from_slice (ip : list Z) : option paddr :=
  if len ip =? 4 then Some (P4 ip)
  else if len ip =? 16 then Some (P6 ip [])
  else None.

(* IPToAddr; [None] = an error is returned *)
Definition ip_to_addr (ip : option (list Z)) (f : fam) : option paddr :=
  match ip with
  | None => None                                     (* "nil ip" *)
  | Some b =>
      match f with
      | F4 => match to4 b with
              | None => None                         (* "bad ipv4 net.IP" *)
              | Some v => addr_from_slice v
              end
      | F6 => match to16 b with
              | None => None                         (* AddrFromSlice(nil) fails *)
              | Some v => addr_from_slice v
              end
      end
  end.

Definition opt_to4 (ip : option (list Z)) : option (list Z) :=
  match ip with None => None | Some b => to4 b end.

(* IPToAddrNoMapped *)
Definition ip_to_addr_nomapped (ip : option (list Z)) : option paddr :=
  match opt_to4 ip with
  | Some v => ip_to_addr (Some v) F4
  | None => ip_to_addr ip F6
  end.

(* net.IPMask.Size: simpleMaskLength, -1 turned into (0, 0) *)
Definition mask_byte (r : Z) : Z := 256 - 2 ^ (8 - r).        (* r leading one bits, 0 <= r <= 8 *)

Definition leading_ones (v : Z) : option Z :=
  find (fun r => mask_byte r =? v) [0; 1; 2; 3; 4; 5; 6; 7].

Fixpoint simple_mask_len (m : list Z) : option Z :=
  match m with
  | [] => Some 0
  | v :: t =>
      if v =? 255 then match simple_mask_len t with Some n => Some (n + 8) | None => None end
      else match leading_ones v with
           | None => None
           | Some k => if forallb (fun x => x =? 0) t then Some k else None
           end
  end.

Definition mask_size (m : option (list Z)) : Z * Z :=
  let bytes := match m with None => [] | Some b => b end in
  match simple_mask_len bytes with
  | None => (0, 0)
  | Some n => (n, 8 * len bytes)
  end.

(* IPNetToPrefix: netip.PrefixFrom(addr, ones) is valid iff 0 <= ones <= BitLen *)
Definition ipnet_to_prefix (ip mask : option (list Z)) (f : fam) : option (paddr * Z) :=
  match ip_to_addr ip f with
  | None => None
  | Some a =>
      let '(ones, bits) := mask_size mask in
      if (bits =? 0) || negb ((0 <=? ones) && (ones <=? bit_len a)) then None
      else Some (a, ones)
  end.

Definition ipnet_to_prefix_nomapped (ip mask : option (list Z)) : option (paddr * Z) :=
  match opt_to4 ip with
  | Some v => ipnet_to_prefix (Some v) mask F4
  | None => ipnet_to_prefix ip mask F6
  end.

(* ---- membership on both representations ---- *)

(* net.networkNumberAndMask; [None] = (nil, nil) *)
Definition network_number_and_mask (ip mask : option (list Z)) : option (list Z * list Z) :=
  let ipb := match ip with None => [] | Some b => b end in
  let mb := match mask with None => [] | Some b => b end in
  let nn := match to4 ipb with Some v => Some v | None => if len ipb =? 16 then Some ipb else None end in
  match nn with
  | None => None
  | Some n =>
      if len mb =? 4 then (if len n =? 4 then Some (n, mb) else None)
      else if len mb =? 16 then (if len n =? 4 then Some (n, skipn 12 mb) else Some (n, mb))
      else None
  end.

Fixpoint masked_eq (nn m p : list Z) : bool :=
  match nn, m, p with
  | [], _, _ => true
  | x :: nn', mb :: m', y :: p' => (Z.land x mb =? Z.land y mb) && masked_eq nn' m' p'
  | _, _, _ => false                 (* not reached when the three lengths agree *)
  end.

(* net.IPNet.Contains(probe) *)
Definition ipnet_contains (ip mask : option (list Z)) (probe : list Z) : bool :=
  match network_number_and_mask ip mask with
  | None => false                     (* len(probe) != len(nil) for every 4- or 16-byte probe *)
  | Some (nn, m) =>
      let p := match to4 probe with Some v => v | None => probe end in
      if len p =? len nn then masked_eq nn m p else false
  end.

(* netip.Prefix.Contains: same family, no zone, the first [ones] bits equal *)
Definition prefix_contains (p : paddr * Z) (probe : paddr) : bool :=
  let '(a, ones) := p in
  if negb (len (addr_zone probe) =? 0) then false
  else if negb (bit_len a =? bit_len probe) then false
  else in_prefixb (addr_bytes probe) (addr_bytes a, Z.to_nat ones).

(* the net.IP form of a netip.Addr (Addr.AsSlice) *)
Definition as_slice (a : paddr) : list Z := addr_bytes a.

(* ---- NetAddrToAddrPort ---- *)
Inductive net_addr : Type :=
| NAIPPort (ip : option (list Z)) (zone : gostring) (port : Z)     (* net.TCPAddr, net.UDPAddr: have AddrPort() *)
| NAOther.                                                          (* net.IPAddr, net.UnixAddr, custom: no AddrPort() *)

(* the result: the Addr ([None] = invalid) and the port; NAOther gives the zero AddrPort *)
Definition net_addr_to_addr_port (a : net_addr) : option paddr * Z :=
  match a with
  | NAOther => (None, 0)
  | NAIPPort ip zone port =>
      let ipb := match ip with None => [] | Some b => b end in
      let p := port mod 65536 in                    (* uint16(a.Port) *)
      match addr_from_slice ipb with
      | None => (None, p)
      | Some (P4 b) => (Some (P4 b), p)             (* WithZone is a no-op on IPv4 *)
      | Some (P6 b _) =>
          let a6 := P6 b zone in
          if is4in6 a6 then (Some (unmap a6), p) else (Some a6, p)
      end
  end.

(* ---- sort.go ---- *)

(* lexicographic comparison of byte strings: -1, 0, 1 *)
Fixpoint cmp_bytes (a b : list Z) : Z :=
  match a, b with
  | [], [] => 0
  | [], _ :: _ => -1
  | _ :: _, [] => 1
  | x :: a', y :: b' => if x <? y then -1 else if y <? x then 1 else cmp_bytes a' b'
  end.

(* netip.Addr.Compare for valid addresses: bit length, value, zone *)
Definition addr_compare (a b : paddr) : Z :=
  if bit_len a <? bit_len b then -1 else if bit_len b <? bit_len a then 1
  else let c := cmp_bytes (addr_bytes a) (addr_bytes b) in
       if negb (c =? 0) then c else cmp_bytes (addr_zone a) (addr_zone b).

(* prefer(a, b, famFunc) with famFunc = Is4 (F4) or Is6 (F6) *)
Definition fam_func (f : fam) (a : paddr) : bool :=
  match f with F4 => is4 a | F6 => negb (is4 a) end.

Definition prefer (f : fam) (a b : option paddr) : Z :=
  match a, b with
  | None, _ => 1
  | Some _, None => -1
  | Some x, Some y =>
      if Bool.eqb (fam_func f x) (fam_func f y) then addr_compare x y
      else if fam_func f x then -1 else 1
  end.

Definition prefer_lt (f : fam) (a b : option paddr) : bool := prefer f a b <? 0.

(* insertion sort with cmp(a, b) < 0, as a reference for slices.SortFunc *)
Fixpoint insert_by (lt : option paddr -> option paddr -> bool) (x : option paddr) (l : list (option paddr)) :=
  match l with
  | [] => [x]
  | y :: t => if lt x y then x :: l else y :: insert_by lt x t
  end.

Definition sort_prefer (f : fam) (l : list (option paddr)) : list (option paddr) :=
  fold_right (insert_by (prefer_lt f)) [] l.
