(* Model/Sync.v — syncutil.OnceConstructor.Get and syncutil.ChanSemaphore as
   interleaving transition systems over their atomic steps (C17).

   OnceConstructor: per key, the loader stored by LoadOrStore owns a channel of
   capacity 1 holding one token; the only operations on it are receives and one
   close, so it is in one of three states — token present, token taken (the
   taker is running the constructor), closed (the value is cached).  A loader
   that lost the LoadOrStore race is never invoked and plays no role. *)
From Verif Require Import Base.GoPrim Base.Skel Model.ExpectedSkel.
From Coq Require Import String.

(* the skeletons the transition systems below were written for (astgen's output
   at the pinned commit); Props/C17.v checks Gen.ConcSkel against them *)

(* ================= OnceConstructor ================= *)

Inductive slot : Type :=
| SlotNone                 (* no loader stored for the key *)
| SlotFresh                (* loader stored, its token not yet taken *)
| SlotBuilding             (* token taken: exactly one caller is running the constructor *)
| SlotDone (v : Z).        (* channel closed, value cached *)

(* where a caller of Get(k) is *)
Inductive opc : Type :=
| OLoad                    (* about to c.loaders.Load(key) *)
| OAlloc                   (* Load missed: make(chan, 1); done <- token; build the closure *)
| OStore                   (* about to LoadOrStore *)
| OCall                    (* about to run the stored loader: _, ok := <-done *)
| ONew1                    (* got the token: about to call c.new(key) *)
| ONew2                    (* c.new(key) is running *)
| ORet (v : Z)             (* the loader returned v *)
| OFin (v : Z).            (* Get returned v *)

Inductive oevent : Type :=
| EBegin (k : Z)           (* c.new(k) invoked *)
| EEnd (k v : Z).          (* c.new(k) returned v *)

Record ostate : Type := mk_ostate {
  o_slots : Z -> slot;
  o_threads : list (Z * opc);      (* key, position *)
  o_log : list oevent;             (* most recent first *)
  o_next : Z                       (* the next value a constructor returns: all results are distinct *)
}.

Definition o_init (keys : list Z) : ostate :=
  mk_ostate (fun _ => SlotNone) (map (fun k => (k, OLoad)) keys) [] 0.

Definition upd_slot (f : Z -> slot) (k : Z) (s : slot) : Z -> slot :=
  fun x => if x =? k then s else f x.

Fixpoint upd_nth {A} (l : list A) (i : nat) (x : A) : list A :=
  match l, i with
  | [], _ => []
  | _ :: t, O => x :: t
  | h :: t, S i' => h :: upd_nth t i' x
  end.

(* one atomic step of thread i; None = the thread cannot move (blocked or finished) *)
Definition o_step (s : ostate) (i : nat) : option ostate :=
  match nth_error (o_threads s) i with
  | None => None
  | Some (k, pc) =>
      let move pc' := Some (mk_ostate (o_slots s) (upd_nth (o_threads s) i (k, pc')) (o_log s) (o_next s)) in
      match pc with
      | OLoad => match o_slots s k with SlotNone => move OAlloc | _ => move OCall end
      | OAlloc => move OStore
      | OStore =>
          match o_slots s k with
          | SlotNone => Some (mk_ostate (upd_slot (o_slots s) k SlotFresh) (upd_nth (o_threads s) i (k, OCall)) (o_log s) (o_next s))
          | _ => move OCall
          end
      | OCall =>
          match o_slots s k with
          | SlotFresh => Some (mk_ostate (upd_slot (o_slots s) k SlotBuilding) (upd_nth (o_threads s) i (k, ONew1)) (o_log s) (o_next s))
          | SlotDone v => move (ORet v)
          | SlotBuilding => None          (* the channel is empty and open: the receive blocks *)
          | SlotNone => None              (* cannot happen: a loader is always stored before it is called *)
          end
      | ONew1 => Some (mk_ostate (o_slots s) (upd_nth (o_threads s) i (k, ONew2)) (EBegin k :: o_log s) (o_next s))
      | ONew2 =>
          let v := o_next s in
          Some (mk_ostate (upd_slot (o_slots s) k (SlotDone v)) (upd_nth (o_threads s) i (k, ORet v))
                          (EEnd k v :: o_log s) (v + 1))
      | ORet v => move (OFin v)
      | OFin _ => None
      end
  end.

(* a schedule: the thread chosen at each step; a choice that cannot move is skipped *)
Fixpoint o_run (s : ostate) (sched : list nat) : ostate :=
  match sched with
  | [] => s
  | i :: rest => match o_step s i with Some s' => o_run s' rest | None => o_run s rest end
  end.

Definition begins (k : Z) (log : list oevent) : nat :=
  List.length (filter (fun e => match e with EBegin k' => k' =? k | _ => false end) log).

Definition ends (k : Z) (log : list oevent) : list Z :=
  flat_map (fun e => match e with EEnd k' v => if k' =? k then [v] else [] | _ => [] end) log.

(* ================= ChanSemaphore ================= *)

(* the buffered channel's occupancy and capacity, and the counts of successful
   Acquires and of Releases that received a token *)
Record sem : Type := mk_sem { s_q : Z; s_cap : Z; s_acquired : Z; s_received : Z }.

Definition sem_new (n : Z) : sem := mk_sem 0 n 0 0.

Inductive sem_event : Type :=
| SAcquireOk               (* Acquire: the send case fired *)
| SAcquireErr              (* Acquire: the ctx.Done case fired; returns ctx.Err() *)
| SReleaseRecv             (* Release: a token was received *)
| SReleaseDefault          (* Release: nothing to receive, default case *)
| SHandoff.                (* capacity 0: a blocked Acquire hands its token directly to a Release *)

(* the events enabled for an Acquire whose context is / is not done *)
Definition acquire_enabled (s : sem) (ctx_done : bool) : list sem_event :=
  (if s_q s <? s_cap s then [SAcquireOk] else []) ++ (if ctx_done then [SAcquireErr] else []).

(* the events enabled for a Release; [waiting]: an Acquire is blocked in its select *)
Definition release_enabled (s : sem) (waiting : bool) : list sem_event :=
  if 0 <? s_q s then [SReleaseRecv]
  else if waiting && (s_cap s =? 0) then [SHandoff] else [SReleaseDefault].

Definition sem_apply (s : sem) (e : sem_event) : sem :=
  match e with
  | SAcquireOk => mk_sem (s_q s + 1) (s_cap s) (s_acquired s + 1) (s_received s)
  | SAcquireErr => s
  | SReleaseRecv => mk_sem (s_q s - 1) (s_cap s) (s_acquired s) (s_received s + 1)
  | SReleaseDefault => s
  | SHandoff => mk_sem (s_q s) (s_cap s) (s_acquired s + 1) (s_received s + 1)
  end.

(* an event is legal in a state *)
Definition sem_legal (s : sem) (e : sem_event) : Prop :=
  match e with
  | SAcquireOk => s_q s < s_cap s
  | SAcquireErr => True
  | SReleaseRecv => 0 < s_q s
  | SReleaseDefault => s_q s = 0
  | SHandoff => s_cap s = 0
  end.

Inductive sem_reach (n : Z) : sem -> Prop :=
| sr_init : sem_reach n (sem_new n)
| sr_step s e : sem_reach n s -> sem_legal s e -> sem_reach n (sem_apply s e).
