(* Model/Ip.v — netutil.IsValidIPString / IsValidIPPortString and helpers (C02). *)
From Verif Require Import Base.GoPrim Base.Strings Gen.Consts Gen.BytePreds.

(* isIPv4Label *)
Definition is_ipv4_label (l : gostring) : bool :=
  match l with
  | [] => false
  | [c] => is_digit c
  | c :: _ =>
      if 3 <? len l then false
      else if c =? 48 then false
      else forallb is_digit l && (fold_left (fun v c => v * 10 + (c - 48)) l 0 <=? 255)
  end.

(* isValidIPv4String: the Cut loop accepts exactly four dot-separated labels *)
Definition is_valid_ipv4_string (s : gostring) : bool :=
  let ls := split_on dot s in
  (Z.of_nat (length ls) =? 4) && forallb is_ipv4_label ls.

(* countIPv6FieldRunes *)
Fixpoint count_field_runes (s : gostring) (n : Z) : Z :=
  match s with
  | [] => n
  | c :: t => if gen_fromHexByte c =? 255 then n
              else if 3 <? n then 0
              else count_field_runes t (n + 1)
  end.

(* the value returned at the end of the loop is len(s), also when the loop saw a 5th digit...
   the code returns 0 as soon as n > 3 on a hex digit, so a run of >= 5 hex digits gives 0 *)
Definition count_ipv6_field_runes (s : gostring) : Z := count_field_runes s 0.

(* countIPv6SepRunes; s is non-empty at every call site *)
Definition count_ipv6_sep_runes (s : gostring) (had : bool) : Z * bool :=
  match s with
  | [] => (0, had)
  | c :: t =>
      if negb (c =? 58) then (0, had)
      else match t with
           | [] => (0, had)
           | c2 :: _ => if c2 =? 58 then (if had then (0, false) else (2, true)) else (1, had)
           end
  end.

(* trimValidIPv6Field *)
Definition trim_valid_ipv6_field (s : gostring) (got : Z) (has_ell : bool) : gostring * bool :=
  let fl := count_ipv6_field_runes s in
  if fl =? 0 then ([], false)
  else if fl =? len s then ([], Bool.eqb has_ell (got + 1 <? c_maxIPv6FieldsNum))
  else
    let rest := skipn (Z.to_nat fl) s in
    match rest with
    | 46 :: _ =>
        let fits := if has_ell then got <? c_maxIPv6FieldsNum - 2 else got =? c_maxIPv6FieldsNum - 2 in
        ([], fits && is_valid_ipv4_string s)
    | _ => (rest, true)
    end.

(* the loop of isValidIPv6String *)
Fixpoint v6_fields (fuel : nat) (s : gostring) (fields : Z) (has_ell : bool) : bool :=
  match fuel with
  | O => false
  | S fuel' =>
      if (fields <? c_maxIPv6FieldsNum) && negb (len s =? 0) then
        let '(s1, ok) := trim_valid_ipv6_field s fields has_ell in
        if negb ok then false
        else if len s1 =? 0 then true
        else
          let '(sep, has_ell') := count_ipv6_sep_runes s1 has_ell in
          if sep =? 0 then false
          else v6_fields fuel' (skipn (Z.to_nat sep) s1) (fields + 1) has_ell'
      else (len s =? 0) && Bool.eqb has_ell (fields <? c_maxIPv6FieldsNum)
  end.

Definition is_valid_ipv6_string (s : gostring) : bool :=
  match s with
  | 58 :: 58 :: r => v6_fields 10 r 0 true
  | _ => v6_fields 10 s 0 false
  end.

(* IsValidIPString: the first '.' or ':' among the first bytes decides; more than
   maxSignificant other bytes before it: false *)
Fixpoint ip_dispatch (whole : gostring) (s : gostring) (significant : Z) : bool :=
  match s with
  | [] => false
  | c :: t =>
      if c_maxSignificant <? significant then false
      else if c =? 46 then is_valid_ipv4_string whole
      else if c =? 58 then
        let i := index_byte whole 37 in
        if i =? -1 then is_valid_ipv6_string whole
        else if len whole =? i + 1 then false          (* hasZone && zone == "" *)
        else is_valid_ipv6_string (firstn (Z.to_nat i) whole)
      else ip_dispatch whole t (significant + 1)
  end.

Definition is_valid_ip_string (s : gostring) : bool := ip_dispatch s s 0.

(* isUint16; "" is accepted by this helper, the caller rejects an empty port *)
Fixpoint is_uint16_from (s : gostring) (n : Z) : bool :=
  match s with
  | [] => true
  | c :: t => if is_digit c then
                let n' := n * 10 + (c - 48) in
                if 65535 <? n' then false else is_uint16_from t n'
              else false
  end.

Definition is_uint16 (s : gostring) : bool := is_uint16_from s 0.

Fixpoint last_idx_from (c : Z) (s : gostring) (i best : Z) : Z :=
  match s with
  | [] => best
  | x :: t => last_idx_from c t (i + 1) (if x =? c then i else best)
  end.

(* splitAddrPort + IsValidIPPortString *)
Definition is_valid_ip_port_string (s : gostring) : bool :=
  let i := last_idx_from 58 s 0 (-1) in
  if i =? -1 then false
  else
    let ip := firstn (Z.to_nat i) s in
    let port := skipn (Z.to_nat (i + 1)) s in
    if (len ip =? 0) || (len port =? 0) then false
    else
      let '(ip', ok) :=
        if contains_byte ip 58 then
          if negb (hd 0 ip =? 91) || negb (last_or ip 0 =? 93) then (ip, false)
          else (removelast (tl ip), true)
        else (ip, true) in
      if negb ok then false
      else if negb (is_uint16 port) then false
      else is_valid_ip_string ip'.
