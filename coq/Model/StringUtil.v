(* Model/StringUtil.v — stringutil.ContainsFold and stringutil.SplitTrimmed (C13).

   ContainsFold is modelled at the byte level with Go's slice bounds (panic
   monad) over the UTF-8 decoder of Std/Utf8.v.  [fold] is unicode.SimpleFold,
   an oracle; strings.EqualFold is modelled by its contract: both strings decode
   (invalid bytes as U+FFFD, one byte wide) to equally many runes that are
   pairwise in the same SimpleFold orbit.  SplitTrimmed is modelled over an
   explicit array, because the result shares the storage of the split slice;
   [trim] (strings.TrimSpace) and [split] (strings.Split) are oracles. *)
From Verif Require Import Base.GoPrim Base.Strings Std.Utf8.

Definition orbit_fuel : nat := 8.     (* no SimpleFold orbit has more than 4 members *)

Section Fold.
  Variable fold : Z -> Z.

  (* the closure of ContainsFold: for f := first; ; { if r == f {true}; if f = SimpleFold(f); f == first {false} } *)
  Fixpoint in_orbit_from (fuel : nat) (first f r : Z) : M bool :=
    match fuel with
    | O => OutOfFuel
    | S fuel' =>
        if r =? f then Ret true
        else let f' := fold f in
             if f' =? first then Ret false else in_orbit_from fuel' first f' r
    end.

  Definition in_orbit (first r : Z) : M bool := in_orbit_from orbit_fuel first first r.

  (* the same test as a boolean (out of fuel = false) *)
  Definition same_orbit (a b : Z) : bool :=
    match in_orbit a b with Ret x => x | _ => false end.

  Fixpoint forall2b {A} (f : A -> A -> bool) (a b : list A) : bool :=
    match a, b with
    | [], [] => true
    | x :: a', y :: b' => f x y && forall2b f a' b'
    | _, _ => false
    end.

  (* strings.EqualFold *)
  Definition equal_fold (s t : gostring) : bool := forall2b same_orbit (runes_of s) (runes_of t).

  (* strings.IndexFunc(s, pred) with a partial predicate: byte offset of the first
     rune satisfying it, -1 if none *)
  Fixpoint index_func_from (fuel : nat) (pred : Z -> M bool) (s : gostring) (off : Z) : M Z :=
    match fuel with
    | O => Ret (-1)
    | S fuel' =>
        match s with
        | [] => Ret (-1)
        | _ =>
            let '(r, w) := decode s in
            do ok <- pred r;
            if ok then Ret off else index_func_from fuel' pred (skipn (Z.to_nat w) s) (off + w)
        end
    end.

  Definition index_func (pred : Z -> M bool) (s : gostring) : M Z :=
    index_func_from (length s) pred s 0.

  (* the loop: for i := 0; i != -1 && len(s) >= len(substr); { ... } *)
  Fixpoint contains_loop (fuel : nat) (first : Z) (substr : gostring) (s : gostring) (i : Z) : M bool :=
    match fuel with
    | O => OutOfFuel
    | S fuel' =>
        if (i =? -1) || (len s <? len substr) then Ret false
        else
          do window <- slice_to s (len substr);
          if equal_fold window substr then Ret true
          else
            do tail <- slice_from s 1;
            do i' <- index_func (in_orbit first) tail;
            do s' <- slice_from s (1 + i');
            contains_loop fuel' first substr s' i'
    end.

  Definition contains_fold (s substr : gostring) : M bool :=
    if len s <? len substr then Ret false
    else if len s =? len substr then Ret (equal_fold s substr)
    else
      let first := fst (decode substr) in
      contains_loop (S (S (length s))) first substr s 0.
End Fold.

(* ---- SplitTrimmed ---- *)
Section Split.
  Variable trim : gostring -> gostring.                       (* strings.TrimSpace *)
  Variable split : gostring -> gostring -> list gostring.     (* strings.Split *)

  Fixpoint set_nth {A} (l : list A) (n : nat) (x : A) : list A :=
    match l, n with
    | [], _ => []
    | _ :: t, O => x :: t
    | h :: t, S n' => h :: set_nth t n' x
    end.

  (* for i, s := range split: reads arr[i] (the shared array, possibly already
     overwritten at indices < j <= i), writes arr[j] when the trimmed piece is kept *)
  Fixpoint filter_in_place (n : nat) (i j : nat) (arr : list gostring) : nat * list gostring :=
    match n with
    | O => (j, arr)
    | S n' =>
        let s := trim (nth i arr []) in
        match s with
        | [] => filter_in_place n' (S i) j arr
        | _ => filter_in_place n' (S i) (S j) (set_nth arr j s)
        end
    end.

  (* the result; [None] would be a nil slice: never returned *)
  Definition split_trimmed (str sep : gostring) : option (list gostring) :=
    let str' := trim str in
    match str' with
    | [] => Some []
    | _ =>
        let arr := split str' sep in
        let '(j, arr') := filter_in_place (length arr) 0 0 arr in
        Some (firstn j arr')
    end.

  (* the reference definition *)
  Definition split_trimmed_spec (str sep : gostring) : list gostring :=
    match trim str with
    | [] => []
    | s => filter (fun p => match p with [] => false | _ => true end) (map trim (split s sep))
    end.
End Split.

(* ---- reference definitions for the ASCII clause ---- *)
Fixpoint has_prefix_fold_ascii (p s : gostring) : bool :=
  match p, s with
  | [], _ => true
  | x :: p', y :: s' => (to_lower_ascii_byte x =? to_lower_ascii_byte y) && has_prefix_fold_ascii p' s'
  | _ :: _, [] => false
  end.

(* strings.Contains(strings.ToLower(s), strings.ToLower(sub)) for ASCII strings *)
Fixpoint contains_lower_ascii (s sub : gostring) : bool :=
  has_prefix_fold_ascii sub s ||
  match s with
  | [] => false
  | _ :: t => contains_lower_ascii t sub
  end.
