(* Model/IoUtil.v — executable model of ioutil.LimitReader and
   ioutil.TruncatedWriter (C15).  Definitions only; proofs are in
   Proofs/IoUtilProofs.v.

   The wrapped io.Reader / io.Writer is arbitrary: a state type and a step
   function given as Section variables.  One underlying Read on a buffer of
   length [l] answers [(k, data, e)]: the returned count, the bytes it put into
   the buffer, and an error code (0 = nil). *)
From Verif Require Import Base.GoPrim.

Inductive rd_err : Type :=
| ENil
| ELimit (limit : Z)      (* *LimitError{Limit: limit} *)
| EBadLen (k : Z)         (* fmt.Errorf("bad read length: %d", k) *)
| EPass (code : Z).       (* the wrapped reader's own error, passed through *)

Record rd_obs : Type := mk_rd_obs {
  ob_req : option Z;      (* length of the buffer handed to the wrapped reader, if it was called *)
  ob_n : Z;               (* count returned by Read *)
  ob_data : gostring;     (* p[:n] after the call *)
  ob_err : rd_err
}.

Definition err_of_code (e : Z) : rd_err := if e =? 0 then ENil else EPass e.

Section Reader.
  Variable R : Type.
  Variable rstep : R -> Z -> R * (Z * gostring * Z).

  Record lrst : Type := mk_lrst { lr_r : R; lr_limit : Z; lr_n : Z }.

  (* ioutil.LimitReader(r, n) *)
  Definition limit_reader (r : R) (n : Z) : lrst := mk_lrst r n n.

  (* limitedReader.Read with len(p) = plen *)
  Definition lr_read (st : lrst) (plen : Z) : lrst * rd_obs :=
    if lr_n st =? 0 then
      (st, mk_rd_obs None 0 [] (ELimit (lr_limit st)))
    else
      let l := Z.min plen (lr_n st) in
      match rstep (lr_r st) l with
      | (r', (k, data, e)) =>
          if k <? 0 then
            (mk_lrst r' (lr_limit st) (lr_n st), mk_rd_obs (Some l) 0 [] (EBadLen k))
          else
            (mk_lrst r' (lr_limit st) (u64 (lr_n st - k)),
             mk_rd_obs (Some l) k data (err_of_code e))
      end.

  Fixpoint lr_run (st : lrst) (plens : list Z) : list rd_obs :=
    match plens with
    | [] => []
    | p :: ps => let '(st', o) := lr_read st p in o :: lr_run st' ps
    end.

  (* the wrapped reader's own view: the answers it gives to a list of request sizes *)
  Fixpoint rtrace (r : R) (ls : list Z) : list (Z * gostring * Z) :=
    match ls with
    | [] => []
    | l :: ls' => let '(r', a) := rstep r l in a :: rtrace r' ls'
    end.
End Reader.

Arguments mk_lrst {R}.
Arguments lr_r {R}.
Arguments lr_limit {R}.
Arguments lr_n {R}.

(* Replay reader used by the correspondence check: the answers the real wrapped
   reader gave, in order.  When the script is exhausted it answers (0, [], 0). *)
Definition replay_rstep (r : list (Z * gostring * Z)) (l : Z)
  : list (Z * gostring * Z) * (Z * gostring * Z) :=
  match r with
  | [] => ([], (0, [], 0))
  | a :: r' => (r', a)
  end.

Definition lr_run_replay (n : Z) (answers : list (Z * gostring * Z)) (plens : list Z) : list rd_obs :=
  lr_run _ replay_rstep (limit_reader _ answers n) plens.

(* A stream reader: delivers the bytes of a fixed stream, at most [cap] of them
   per call according to a script of (cap, err) actions; io.EOF (code 1) once the
   stream and the script are exhausted.  Used to state the prefix corollary. *)
Definition stream_rstep (r : gostring * list (Z * Z)) (l : Z)
  : (gostring * list (Z * Z)) * (Z * gostring * Z) :=
  let '(stream, script) := r in
  match script with
  | [] =>
      let k := Z.min l (len stream) in
      let d := firstn (Z.to_nat k) stream in
      ((skipn (Z.to_nat k) stream, []), (len d, d, if len stream =? 0 then 1 else 0))
  | (cap, e) :: script' =>
      let k := Z.max 0 (Z.min cap (Z.min l (len stream))) in
      let d := firstn (Z.to_nat k) stream in
      ((skipn (Z.to_nat k) stream, script'), (len d, d, e))
  end.

Definition lr_run_stream (n : Z) (stream : gostring) (script : list (Z * Z)) (plens : list Z)
  : list rd_obs :=
  lr_run _ stream_rstep (limit_reader _ (stream, script) n) plens.

(* ------------------------------------------------------------------ *)
(* TruncatedWriter *)

Record wr_obs : Type := mk_wr_obs {
  wo_passed : option gostring;  (* b[:idx] handed to the wrapped writer, if it was called *)
  wo_n : Z;                     (* count returned by Write *)
  wo_err : Z                    (* error code returned by Write (0 = nil) *)
}.

Section Writer.
  Variable W : Type.
  (* one underlying Write: new state, error code; the returned count is ignored by the code *)
  Variable wstep : W -> gostring -> W * Z.

  Record twst : Type := mk_twst { tw_w : W; tw_limit : Z; tw_offset : Z }.

  Definition new_trunc_writer (w : W) (limit : Z) : twst := mk_twst w limit 0.

  Definition tw_write (st : twst) (b : gostring) : twst * wr_obs :=
    let n := len b in
    let remaining := u64 (tw_limit st - tw_offset st) in
    if remaining =? 0 then (st, mk_wr_obs None n 0)
    else
      let i := Z.min n remaining in
      let chunk := firstn (Z.to_nat i) b in
      let '(w', e) := wstep (tw_w st) chunk in
      (mk_twst w' (tw_limit st) (u64 (tw_offset st + i)), mk_wr_obs (Some chunk) n e).

  Fixpoint tw_run (st : twst) (bs : list gostring) : list wr_obs :=
    match bs with
    | [] => []
    | b :: bs' => let '(st', o) := tw_write st b in o :: tw_run st' bs'
    end.
End Writer.

Arguments mk_twst {W}.
Arguments tw_w {W}.
Arguments tw_limit {W}.
Arguments tw_offset {W}.

(* Replay writer: a script of error codes, 0 when exhausted. *)
Definition replay_wstep (w : list Z) (_ : gostring) : list Z * Z :=
  match w with
  | [] => ([], 0)
  | e :: w' => (w', e)
  end.

Definition tw_run_replay (limit : Z) (errs : list Z) (bs : list gostring) : list wr_obs :=
  tw_run _ replay_wstep (new_trunc_writer _ errs limit) bs.
