(* Model/Codecs.v — the text / JSON codecs of C14: timeutil.Duration,
   netutil.HostPort (JoinHostPort / SplitHostPort), netutil.Prefix.UnmarshalText,
   urlutil.URL (MarshalText / UnmarshalText / JSON). *)
From Verif Require Import Base.GoPrim Base.Strings Std.Netip Std.Net Std.Time Std.Utf8 Std.Json.

(* ---- timeutil.Duration ---- *)

(* Duration.String: Go's / and % truncate toward zero (Z.quot, Z.rem) *)
Definition dur_string (d : Z) : M gostring :=
  let str := fmt_duration d in
  let rounded := Z.quot d ns_second in
  if (rounded =? 0) || negb (rounded * ns_second =? d) || negb (Z.rem rounded 60 =? 0) then Ret str
  else if negb (Z.quot (Z.rem rounded 3600) 60 =? 0) then slice_to str (len str - 2)
  else slice_to str (len str - 4).

Definition dur_unmarshal (b : gostring) : presult := parse_duration b.

(* ---- netutil.JoinHostPort / SplitHostPort / HostPort ---- *)

Fixpoint trim_left_set (set : gostring) (s : gostring) : gostring :=
  match s with
  | c :: t => if contains_byte set c then trim_left_set set t else s
  | [] => []
  end.

(* strings.Trim(s, cutset) for an ASCII cutset *)
Definition trim_set (set : gostring) (s : gostring) : gostring :=
  rev (trim_left_set set (rev (trim_left_set set s))).

(* net.JoinHostPort *)
Definition net_join_host_port (host port : gostring) : gostring :=
  if contains_byte host 58 then [91] ++ host ++ [93; 58] ++ port
  else host ++ [58] ++ port.

(* netutil.JoinHostPort(host, port uint16) *)
Definition join_host_port (host : gostring) (port : Z) : gostring :=
  net_join_host_port (trim_set [91; 93] host) (itoa port).

(* net.SplitHostPort; None = an error *)
Definition net_split_host_port (hp : gostring) : option (gostring * gostring) :=
  let i := last_index_byte hp 58 in
  if i <? 0 then None
  else
    let go (host : gostring) (j k : Z) :=
      if 0 <=? index_byte (skipn (Z.to_nat j) hp) 91 then None
      else if 0 <=? index_byte (skipn (Z.to_nat k) hp) 93 then None
      else Some (host, skipn (Z.to_nat (i + 1)) hp) in
    match hp with
    | 91 :: _ =>
        let e := index_byte hp 93 in
        if e <? 0 then None
        else if e + 1 =? len hp then None
        else if e + 1 =? i then go (firstn (Z.to_nat (e - 1)) (skipn 1 hp)) 1 (e + 1)
        else None
    | _ =>
        let host := firstn (Z.to_nat i) hp in
        if 0 <=? index_byte host 58 then None else go host 0 0
    end.

(* netutil.SplitHostPort *)
Definition split_host_port (hp : gostring) : option (gostring * Z) :=
  match net_split_host_port hp with
  | None => None
  | Some (host, port) =>
      match parse_uint16 port with
      | None => None
      | Some p => Some (host, p)
      end
  end.

(* HostPort.String and ParseHostPort *)
Definition hp_string (host : gostring) (port : Z) : gostring := join_host_port host port.
Definition parse_host_port (addr : gostring) : option (gostring * Z) := split_host_port addr.

(* ---- netutil.Prefix.UnmarshalText ---- *)
Section Prefix.
  Variables A P : Type.
  Variable parse_prefix : gostring -> option P.       (* netip.Prefix.UnmarshalText on a non-empty text = netip.ParsePrefix *)
  Variable parse_addr_o : gostring -> option A.       (* netip.ParseAddr *)
  Variable single : A -> P.                           (* netip.PrefixFrom(ip, ip.BitLen()) *)
  Variable invalid_prefix : P.                        (* the zero Prefix *)

  Definition prefix_unmarshal (b : gostring) : option P :=
    if contains_byte b 47 then parse_prefix b
    else match b with
         | [] => Some invalid_prefix                  (* Addr.UnmarshalText("") is the zero Addr without an error *)
         | _ => match parse_addr_o b with
                | Some a => Some (single a)
                | None => None
                end
         end.
End Prefix.

(* ---- urlutil.URL ---- *)
Section URL.
  Variable U : Type.
  Variable url_parse : gostring -> option U.          (* net/url.Parse *)
  Variable url_string : U -> gostring.                (* url.URL.String *)

  Definition url_parse_nonempty (raw : gostring) : option U :=     (* urlutil.Parse *)
    match raw with [] => None | _ => url_parse raw end.

  Definition url_marshal_text (u : U) : gostring := url_string u.

  Definition url_unmarshal_text (b : gostring) : option U :=
    match b with [] => None | _ => url_parse b end.

  (* encoding/json on a URL pointer: MarshalText, then the string encoder with HTML escaping *)
  Definition url_marshal_json (u : U) : gostring := jquote true (url_marshal_text u).

  Inductive json_res : Type :=
  | JKeep                       (* "null": the receiver is left as it is, no error *)
  | JErr
  | JVal (u : U).

  Definition url_unmarshal_json (b : gostring) : json_res :=
    if eqb_str b [110; 117; 108; 108] then JKeep
    else match b with
         | [] => JErr
         | c0 :: _ =>
             if negb (c0 =? 34) || negb (last b 0 =? 34) then JErr
             else match junquote b with
                  | None => JErr
                  | Some s => match url_unmarshal_text s with
                              | Some u => JVal u
                              | None => JErr
                              end
                  end
         end.
End URL.

Arguments JKeep {U}.
Arguments JErr {U}.
Arguments JVal {U}.
