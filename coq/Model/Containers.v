(* Model/Containers.v — executable models of container.RingBuffer,
   container.SortedSliceSet and container.MapSet (C11).  Definitions only. *)
From Verif Require Import Base.GoPrim.

(* ------------------------------------------------------------------ *)
(* RingBuffer[int] *)

Record ring : Type := mk_ring { rb_buf : list Z; rb_cur : nat; rb_full : bool }.

(* NewRingBuffer(size): make([]T, size) *)
Definition ring_new (size : nat) : ring := mk_ring (repeat 0 size) 0 false.

Fixpoint set_nth (i : nat) (e : Z) (l : list Z) : list Z :=
  match l, i with
  | [], _ => []
  | _ :: t, O => e :: t
  | h :: t, S i' => h :: set_nth i' e t
  end.

Definition ring_push (rb : ring) (e : Z) : ring :=
  match rb_buf rb with
  | [] => rb
  | _ =>
      let buf' := set_nth (rb_cur rb) e (rb_buf rb) in
      let cur' := Nat.modulo (rb_cur rb + 1) (length (rb_buf rb)) in
      mk_ring buf' cur' (if Nat.eqb cur' 0 then true else rb_full rb)
  end.

Definition ring_clear (rb : ring) : ring :=
  mk_ring (repeat 0 (length (rb_buf rb))) 0 false.

Definition ring_current (rb : ring) : Z := nth (rb_cur rb) (rb_buf rb) 0.

Definition ring_len (rb : ring) : nat :=
  if rb_full rb then length (rb_buf rb) else rb_cur rb.

(* splitCur *)
Definition ring_split (rb : ring) : list Z * list Z :=
  match rb_buf rb with
  | [] => ([], [])
  | _ => if rb_full rb
         then (skipn (rb_cur rb) (rb_buf rb), firstn (rb_cur rb) (rb_buf rb))
         else (firstn (rb_cur rb) (rb_buf rb), [])
  end.

(* the calls a range loop makes to a callback f, which stops it by returning false *)
Fixpoint visit (f : Z -> bool) (l : list Z) : list Z * bool :=
  match l with
  | [] => ([], true)
  | x :: t => if f x then let '(v, c) := visit f t in (x :: v, c) else ([x], false)
  end.

Definition ring_range (f : Z -> bool) (rb : ring) : list Z :=
  let '(before, after) := ring_split rb in
  let '(v1, cont) := visit f before in
  if cont then v1 ++ fst (visit f after) else v1.

Definition ring_rrange (f : Z -> bool) (rb : ring) : list Z :=
  let '(before, after) := ring_split rb in
  let '(v1, cont) := visit f (rev after) in
  if cont then v1 ++ fst (visit f (rev before)) else v1.

(* what the buffer holds, oldest first *)
Definition ring_contents (rb : ring) : list Z :=
  let '(before, after) := ring_split rb in before ++ after.

(* operations of a history *)
Inductive rop : Type :=
| RPush (e : Z)
| RClear
| RCurrent
| RLen
| RRange (stop : Z)     (* callback returns false on value [stop]; -1 never occurs as a value *)
| RRevRange (stop : Z).

Inductive robs : Type :=
| RUnit
| RVal (v : Z)
| RVals (l : list Z).

Definition ring_step (rb : ring) (o : rop) : ring * robs :=
  match o with
  | RPush e => (ring_push rb e, RUnit)
  | RClear => (ring_clear rb, RUnit)
  | RCurrent => (rb, RVal (ring_current rb))
  | RLen => (rb, RVal (Z.of_nat (ring_len rb)))
  | RRange s => (rb, RVals (ring_range (fun x => negb (x =? s)) rb))
  | RRevRange s => (rb, RVals (ring_rrange (fun x => negb (x =? s)) rb))
  end.

Fixpoint ring_run (rb : ring) (ops : list rop) : list robs :=
  match ops with
  | [] => []
  | o :: os => let '(rb', ob) := ring_step rb o in ob :: ring_run rb' os
  end.

Fixpoint ring_after (rb : ring) (ops : list rop) : ring :=
  match ops with
  | [] => rb
  | o :: os => ring_after (fst (ring_step rb o)) os
  end.

(* ---- specification side: the values pushed since creation / the last Clear ---- *)

Fixpoint pushed_since_clear (acc : list Z) (ops : list rop) : list Z :=
  match ops with
  | [] => acc
  | RPush e :: os => pushed_since_clear (acc ++ [e]) os
  | RClear :: os => pushed_since_clear [] os
  | _ :: os => pushed_since_clear acc os
  end.

Definition lastn (n : nat) (l : list Z) : list Z := skipn (length l - n) l.

(* ------------------------------------------------------------------ *)
(* Sets.  Canonical representation: strictly ascending list. *)

Fixpoint sins (v : Z) (l : list Z) : list Z :=
  match l with
  | [] => [v]
  | x :: t => if v <? x then v :: l else if v =? x then l else x :: sins v t
  end.

Fixpoint sdel (v : Z) (l : list Z) : list Z :=
  match l with
  | [] => []
  | x :: t => if v =? x then t else if v <? x then l else x :: sdel v t
  end.

Fixpoint smem (v : Z) (l : list Z) : bool :=
  match l with
  | [] => false
  | x :: t => (v =? x) || smem v t
  end.

Definition sof_list (vals : list Z) : list Z := fold_left (fun s v => sins v s) vals [].

(* slices.BinarySearch: the loop of the standard library *)
Fixpoint bsearch_loop (fuel : nat) (l : list Z) (v : Z) (i j : nat) : option nat :=
  match fuel with
  | O => None
  | S fuel' =>
      if Nat.ltb i j then
        let h := Nat.div (i + j) 2 in
        if nth h l 0 <? v then bsearch_loop fuel' l v (h + 1) j
        else bsearch_loop fuel' l v i h
      else Some i
  end.

Definition bsearch (l : list Z) (v : Z) : option (nat * bool) :=
  match bsearch_loop (S (length l)) l v 0 (length l) with
  | None => None
  | Some i => Some (i, Nat.ltb i (length l) && (nth i l 0 =? v))
  end.

Definition insert_at (i : nat) (v : Z) (l : list Z) : list Z := firstn i l ++ v :: skipn i l.
Definition delete_at (i : nat) (l : list Z) : list Z := firstn i l ++ skipn (S i) l.

(* SortedSliceSet methods as written (L1); None = the model ran out of fuel *)
Definition ss_add (v : Z) (l : list Z) : option (list Z) :=
  match bsearch l v with
  | None => None
  | Some (i, ok) => Some (if ok then l else insert_at i v l)
  end.

Definition ss_del (v : Z) (l : list Z) : option (list Z) :=
  match bsearch l v with
  | None => None
  | Some (i, ok) => Some (if ok then delete_at i l else l)
  end.

Definition ss_has (v : Z) (l : list Z) : option bool :=
  match bsearch l v with
  | None => None
  | Some (_, ok) => Some ok
  end.

(* A store of set objects; None = a nil pointer. *)
Definition store := list (option (list Z)).

Inductive sop : Type :=
| SNew (vals : list Z)
| SNil
| SAdd (id : nat) (v : Z)
| SDel (id : nat) (v : Z)
| SClear (id : nat)
| SClone (id : nat)
| SEqual (a b : nat)
| SHas (id : nat) (v : Z)
| SLen (id : nat)
| SValues (id : nat)
| SRange (id : nat) (stop : Z).

Inductive sobs : Type :=
| SUnit
| SBool (b : bool)
| SInt (n : Z)
| SList (l : list Z)
| SNilList           (* a nil slice: Values of a nil set *)
| SBad.              (* operation outside the documented domain (Add/Delete on a nil set, bad id) or out of fuel *)

Fixpoint update {A} (i : nat) (x : A) (l : list A) : list A :=
  match l, i with
  | [], _ => []
  | _ :: t, O => x :: t
  | h :: t, S i' => h :: update i' x t
  end.

Definition eqb_set (a b : option (list Z)) : bool :=
  match a, b with
  | None, None => true
  | Some x, Some y => eqb_str x y
  | _, _ => false
  end.

(* [sorted] selects the SortedSliceSet algorithms (binary search, positional
   insert/delete); otherwise the canonical set operations, which is what a Go
   map gives (MapSet). *)
Definition set_step (sorted : bool) (st : store) (o : sop) : store * sobs :=
  match o with
  | SNew vals => (st ++ [Some (sof_list vals)], SUnit)
  | SNil => (st ++ [None], SUnit)
  | SAdd id v =>
      match nth_error st id with
      | Some (Some l) =>
          if sorted then
            match ss_add v l with
            | Some l' => (update id (Some l') st, SUnit)
            | None => (st, SBad)
            end
          else (update id (Some (sins v l)) st, SUnit)
      | _ => (st, SBad)
      end
  | SDel id v =>
      match nth_error st id with
      | Some (Some l) =>
          if sorted then
            match ss_del v l with
            | Some l' => (update id (Some l') st, SUnit)
            | None => (st, SBad)
            end
          else (update id (Some (sdel v l)) st, SUnit)
      | Some None => if sorted then (st, SBad) else (st, SUnit)
      | None => (st, SBad)
      end
  | SClear id =>
      match nth_error st id with
      | Some (Some _) => (update id (Some []) st, SUnit)
      | Some None => (st, SUnit)
      | None => (st, SBad)
      end
  | SClone id =>
      match nth_error st id with
      | Some x => (st ++ [x], SUnit)
      | None => (st, SBad)
      end
  | SEqual a b =>
      match nth_error st a, nth_error st b with
      | Some x, Some y => (st, SBool (eqb_set x y))
      | _, _ => (st, SBad)
      end
  | SHas id v =>
      match nth_error st id with
      | Some (Some l) =>
          if sorted then
            match ss_has v l with Some b => (st, SBool b) | None => (st, SBad) end
          else (st, SBool (smem v l))
      | Some None => (st, SBool false)
      | None => (st, SBad)
      end
  | SLen id =>
      match nth_error st id with
      | Some (Some l) => (st, SInt (len l))
      | Some None => (st, SInt 0)
      | None => (st, SBad)
      end
  | SValues id =>
      match nth_error st id with
      | Some (Some l) => (st, SList l)
      | Some None => (st, SNilList)
      | None => (st, SBad)
      end
  | SRange id s =>
      match nth_error st id with
      | Some (Some l) => (st, SList (fst (visit (fun x => negb (x =? s)) l)))
      | Some None => (st, SList [])
      | None => (st, SBad)
      end
  end.

Fixpoint set_run (sorted : bool) (st : store) (ops : list sop) : list sobs :=
  match ops with
  | [] => []
  | o :: os => let '(st', ob) := set_step sorted st o in ob :: set_run sorted st' os
  end.

Fixpoint set_after (sorted : bool) (st : store) (ops : list sop) : store :=
  match ops with
  | [] => st
  | o :: os => set_after sorted (fst (set_step sorted st o)) os
  end.

(* MapSet.Range visits members in an undefined order: admissibility of an
   observed visit list w.r.t. the members and the stop value. *)
Fixpoint nodupb (l : list Z) : bool :=
  match l with
  | [] => true
  | x :: t => negb (smem x t) && nodupb t
  end.

Definition map_range_ok (members visited : list Z) (stop : Z) : bool :=
  nodupb visited && forallb (fun x => smem x members) visited &&
  (if smem stop members
   then (* stops exactly at [stop]: it is the last visited *)
     match rev visited with
     | last :: before => (last =? stop) && negb (smem stop before)
     | [] => false
     end
   else (* never stopped: every member visited *)
     Nat.eqb (length visited) (length members)).
