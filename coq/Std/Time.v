(* Std/Time.v — time.Duration.String (format, fmtFrac, fmtInt) and
   time.ParseDuration (leadingInt, leadingFraction, unitMap), transcribed from
   go1.24.2 time/time.go and time/format.go.  Durations are Z in the int64 range.

   ParseDuration computes the fractional part in float64:
       v += uint64(float64(f) * (float64(unit) / scale)).
   When scale divides unit and the product is below 2^53 every intermediate value
   is an exactly representable integer, so the result is f * (unit / scale); the
   model computes exactly that and answers [PUnmodelled] otherwise (no property
   needs other texts).  Modelled, validated against the real functions by the
   C14 correspondence. *)
From Verif Require Import Base.GoPrim Base.Strings.

Definition two63 : Z := 9223372036854775808.
Definition ns_second : Z := 1000000000.
Definition ns_minute : Z := 60000000000.
Definition ns_hour : Z := 3600000000000.

(* ---- formatting ---- *)

(* fmtInt: decimal digits, "0" for zero *)
Fixpoint fmt_int_fuel (fuel : nat) (v : Z) (acc : gostring) : gostring :=
  match fuel with
  | O => acc
  | S f => let acc' := (48 + v mod 10) :: acc in
           if v / 10 =? 0 then acc' else fmt_int_fuel f (v / 10) acc'
  end.

Definition fmt_int (v : Z) : gostring := fmt_int_fuel 20 v [].

(* fmtFrac: the fraction of v / 10^prec without trailing zeros (and without the
   point when it is zero), and v / 10^prec *)
Fixpoint fmt_frac_loop (prec : nat) (v : Z) (print : bool) (acc : gostring) : gostring * Z * bool :=
  match prec with
  | O => (acc, v, print)
  | S p => let digit := v mod 10 in
           let print' := print || negb (digit =? 0) in
           fmt_frac_loop p (v / 10) print' (if print' then (48 + digit) :: acc else acc)
  end.

Definition fmt_frac (v : Z) (prec : nat) (acc : gostring) : gostring * Z :=
  let '(acc', v', print) := fmt_frac_loop prec v false acc in
  (if print then 46 :: acc' else acc', v').

(* Duration.format; u = |d| as uint64 *)
Definition fmt_duration (d : Z) : gostring :=
  let u := Z.abs d in
  let body :=
    if u <? ns_second then
      if u =? 0 then [48; 115]                                   (* "0s" *)
      else
        let '(prec, unit) :=
          if u <? 1000 then (0%nat, [110; 115])                  (* "ns" *)
          else if u <? 1000000 then (3%nat, [194; 181; 115])     (* "µs", U+00B5 *)
          else (6%nat, [109; 115]) in                            (* "ms" *)
        let '(frac, u') := fmt_frac u prec unit in
        fmt_int_fuel 20 u' frac
    else
      let '(frac, secs) := fmt_frac u 9 [115] in                 (* "s" *)
      let s1 := fmt_int_fuel 20 (secs mod 60) frac in
      let mins := secs / 60 in
      if 0 <? mins then
        let s2 := fmt_int_fuel 20 (mins mod 60) (109 :: s1) in   (* "m" *)
        let hours := mins / 60 in
        if 0 <? hours then fmt_int_fuel 20 hours (104 :: s2)     (* "h" *)
        else s2
      else s1 in
  if d <? 0 then 45 :: body else body.

(* ---- parsing ---- *)

Inductive presult : Type :=
| PVal (d : Z)
| PErr
| PUnmodelled.

(* leadingInt: (value, rest), None on overflow *)
Fixpoint leading_int (s : gostring) (x : Z) : option (Z * gostring) :=
  match s with
  | [] => Some (x, [])
  | c :: t =>
      if is_digit c then
        if two63 / 10 <? x then None
        else let x' := x * 10 + (c - 48) in
             if two63 <? x' then None else leading_int t x'
      else Some (x, s)
  end.

(* leadingFraction: (value, scale, rest); digits after an overflow are skipped *)
Fixpoint leading_fraction (s : gostring) (x scale : Z) (overflow : bool) : Z * Z * gostring :=
  match s with
  | [] => (x, scale, [])
  | c :: t =>
      if is_digit c then
        if overflow then leading_fraction t x scale true
        else if (two63 - 1) / 10 <? x then leading_fraction t x scale true
        else let y := x * 10 + (c - 48) in
             if two63 <? y then leading_fraction t x scale true
             else leading_fraction t y (scale * 10) false
      else (x, scale, s)
  end.

(* the unit: the bytes up to the next '.' or digit *)
Fixpoint span_unit (s : gostring) : gostring * gostring :=
  match s with
  | [] => ([], [])
  | c :: t => if (c =? 46) || is_digit c then ([], s) else let '(u, r) := span_unit t in (c :: u, r)
  end.

Definition unit_of (u : gostring) : option Z :=
  if eqb_str u [110; 115] then Some 1                               (* ns *)
  else if eqb_str u [117; 115] then Some 1000                       (* us *)
  else if eqb_str u [194; 181; 115] then Some 1000                  (* µs U+00B5 *)
  else if eqb_str u [206; 188; 115] then Some 1000                  (* μs U+03BC *)
  else if eqb_str u [109; 115] then Some 1000000                    (* ms *)
  else if eqb_str u [115] then Some ns_second
  else if eqb_str u [109] then Some ns_minute
  else if eqb_str u [104] then Some ns_hour
  else None.

Definition two53 : Z := 9007199254740992.

(* one iteration of the for loop: the new total and the rest *)
Inductive pstep : Type :=
| SOk (d : Z) (rest : gostring)
| SErr
| SUnmodelled.

Definition parse_component (s : gostring) (d : Z) : pstep :=
  match s with
  | [] => SErr
  | c0 :: _ =>
      if negb ((c0 =? 46) || is_digit c0) then SErr
      else
        match leading_int s 0 with
        | None => SErr
        | Some (v, s1) =>
            let pre := negb (len s =? len s1) in
            let '(f, scale, s2, post) :=
              match s1 with
              | c1 :: t =>
                  if c1 =? 46 then
                    let '(f, scale, r) := leading_fraction t 0 1 false in
                    (f, scale, r, negb (len t =? len r))
                  else (0, 1, s1, false)
              | [] => (0, 1, s1, false)
              end in
            if negb pre && negb post then SErr
            else
              let '(u, s3) := span_unit s2 in
              match u with
              | [] => SErr                                        (* missing unit *)
              | _ =>
                  match unit_of u with
                  | None => SErr                                  (* unknown unit *)
                  | Some unit =>
                      if two63 / unit <? v then SErr
                      else
                        let v1 := v * unit in
                        if 0 <? f then
                          if (unit mod scale =? 0) && (f * (unit / scale) <? two53) then
                            let v2 := v1 + f * (unit / scale) in
                            if two63 <? v2 then SErr
                            else if two63 <? d + v2 then SErr else SOk (d + v2) s3
                          else SUnmodelled
                        else if two63 <? d + v1 then SErr else SOk (d + v1) s3
                  end
              end
        end
  end.

Fixpoint parse_loop (fuel : nat) (s : gostring) (d : Z) : presult :=
  match s with
  | [] => PVal d
  | _ =>
      match fuel with
      | O => PErr
      | S f =>
          match parse_component s d with
          | SOk d' rest => parse_loop f rest d'
          | SErr => PErr
          | SUnmodelled => PUnmodelled
          end
      end
  end.

Definition parse_duration (orig : gostring) : presult :=
  let '(neg, s) :=
    match orig with
    | c :: t => if c =? 45 then (true, t) else if c =? 43 then (false, t) else (false, orig)
    | [] => (false, orig)
    end in
  if eqb_str s [48] then PVal 0
  else match s with
       | [] => PErr
       | _ =>
           match parse_loop (S (length s)) s 0 with
           | PVal d => if neg then PVal (- d)
                       else if two63 - 1 <? d then PErr else PVal d
           | r => r
           end
       end.
