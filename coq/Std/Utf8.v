(* Std/Utf8.v — unicode/utf8.DecodeRuneInString (go1.24.2), which is also what a
   `for range` over a string and strings.IndexFunc use: an invalid or truncated
   sequence decodes as RuneError with width 1.  Written with arithmetic instead
   of masks (s0 & 0x1F = s0 - 0xC0 for a two-byte lead, and so on).  Modelled,
   validated against the real decoder by the C13 correspondence. *)
From Verif Require Import Base.GoPrim.

Definition rune_error : Z := 65533.
Definition rune_self : Z := 128.

Definition is_cont (b : Z) : bool := (128 <=? b) && (b <=? 191).

Definition decode (s : gostring) : Z * Z :=
  match s with
  | [] => (rune_error, 0)
  | s0 :: t =>
      if s0 <? 128 then (s0, 1)
      else if s0 <? 194 then (rune_error, 1)                                   (* 0x80..0xC1 *)
      else if s0 <? 224 then                                                   (* 0xC2..0xDF: two bytes *)
        match t with
        | s1 :: _ => if is_cont s1 then ((s0 - 192) * 64 + (s1 - 128), 2) else (rune_error, 1)
        | _ => (rune_error, 1)
        end
      else if s0 <? 240 then                                                   (* 0xE0..0xEF: three bytes *)
        let lo := if s0 =? 224 then 160 else 128 in
        let hi := if s0 =? 237 then 159 else 191 in
        match t with
        | s1 :: s2 :: _ =>
            if (lo <=? s1) && (s1 <=? hi) && is_cont s2
            then ((s0 - 224) * 4096 + (s1 - 128) * 64 + (s2 - 128), 3)
            else (rune_error, 1)
        | _ => (rune_error, 1)
        end
      else if s0 <? 245 then                                                   (* 0xF0..0xF4: four bytes *)
        let lo := if s0 =? 240 then 144 else 128 in
        let hi := if s0 =? 244 then 143 else 191 in
        match t with
        | s1 :: s2 :: s3 :: _ =>
            if (lo <=? s1) && (s1 <=? hi) && is_cont s2 && is_cont s3
            then ((s0 - 240) * 262144 + (s1 - 128) * 4096 + (s2 - 128) * 64 + (s3 - 128), 4)
            else (rune_error, 1)
        | _ => (rune_error, 1)
        end
      else (rune_error, 1)
  end.

(* the runes of a string, as `for _, r := range s` yields them *)
Fixpoint runes_fuel (fuel : nat) (s : gostring) : list Z :=
  match fuel with
  | O => []
  | S f =>
      match s with
      | [] => []
      | _ => let '(r, w) := decode s in r :: runes_fuel f (skipn (Z.to_nat w) s)
      end
  end.

Definition runes_of (s : gostring) : list Z := runes_fuel (length s) s.

(* utf8.AppendRune for a Unicode scalar value *)
Definition encode (r : Z) : gostring :=
  if r <? 128 then [r]
  else if r <? 2048 then [192 + r / 64; 128 + r mod 64]
  else if r <? 65536 then [224 + r / 4096; 128 + (r / 64) mod 64; 128 + r mod 64]
  else [240 + r / 262144; 128 + (r / 4096) mod 64; 128 + (r / 64) mod 64; 128 + r mod 64].

Definition is_scalar (r : Z) : bool :=
  (0 <=? r) && (r <=? 1114111) && negb ((55296 <=? r) && (r <=? 57343)).
