(* Std/Bufio.v — bufio.Scanner with bufio.ScanLines, as hostsfile.Parse uses it
   (modelled from go1.24.2 bufio/scan.go, validated against the real scanner by
   the C08 correspondence: the reader's recorded answers are fed to this model).

   The scanner's buffer management is abstracted to the bytes it holds that are
   not yet tokenised ([pending]) and to [limit] = max(cap(buf), MaxScanTokenSize):
   the buffer is full exactly when it holds [limit] pending bytes without a line
   feed, which is when Scan gives up with ErrTooLong.  A reader answer is the
   chunk it delivered and its error, if any. *)
From Verif Require Import Base.GoPrim Base.Strings.

Inductive rerr : Type := REOF | ROther.
Definition response : Type := (gostring * option rerr)%type.

Inductive scan_end : Type :=
| EndEOF            (* Err() == nil *)
| EndErr            (* the reader's error *)
| EndTooLong        (* bufio.ErrTooLong *)
| EndNoProgress.    (* io.ErrNoProgress *)

Definition lf : Z := 10.
Definition cr : Z := 13.

(* dropCR *)
Definition drop_cr (l : gostring) : gostring :=
  match frev l with
  | 13 :: r => frev r
  | _ => l
  end.

(* the pieces at line feeds, without the empty rest after a final line feed *)
Definition strip_last_empty (pieces : list gostring) : list gostring :=
  match frev pieces with
  | [] :: r => frev r
  | _ => pieces
  end.

(* ScanLines applied until exhaustion to a complete stream: the specification *)
Definition scan_lines (bs : gostring) : list gostring :=
  map drop_cr (strip_last_empty (split_on lf bs)).

Definition max_empty_reads : Z := 100.

(* [pending] holds no line feed (all complete lines have been handed out);
   [empties]: consecutive (0, nil) reads so far *)
Fixpoint feed (limit : Z) (pending : gostring) (empties : Z) (rs : list response)
  : list gostring * scan_end :=
  if limit <=? len pending then ([], EndTooLong) else
  match rs with
  | [] => (scan_lines pending, EndEOF)                 (* a reader whose script is over answers (0, EOF) *)
  | (chunk, Some e) :: _ =>
      (scan_lines (pending ++ chunk), match e with REOF => EndEOF | ROther => EndErr end)
  | (chunk, None) :: rs' =>
      match chunk with
      | [] => if max_empty_reads <? empties + 1 then (scan_lines pending, EndNoProgress)
              else feed limit pending (empties + 1) rs'
      | _ => let pieces := split_on lf (pending ++ chunk) in
             let '(toks, e) := feed limit (last pieces []) 0 rs' in
             (map drop_cr (removelast pieces) ++ toks, e)
      end
  end.

Definition scan_all (limit : Z) (rs : list response) : list gostring * scan_end := feed limit [] 0 rs.

(* what the reader delivered before (and with) its first error *)
Fixpoint delivered (rs : list response) : gostring :=
  match rs with
  | [] => []
  | (chunk, Some _) :: _ => chunk
  | (chunk, None) :: rs' => chunk ++ delivered rs'
  end.

Fixpoint end_of (rs : list response) : scan_end :=
  match rs with
  | [] => EndEOF
  | (_, Some REOF) :: _ => EndEOF
  | (_, Some ROther) :: _ => EndErr
  | (_, None) :: rs' => end_of rs'
  end.

(* never more than [max_empty_reads] consecutive empty reads (counting from [n]) *)
Fixpoint progress_ok (n : Z) (rs : list response) : bool :=
  match rs with
  | [] => true
  | (_, Some _) :: _ => true
  | ([], None) :: rs' => (n + 1 <=? max_empty_reads) && progress_ok (n + 1) rs'
  | (_, None) :: rs' => progress_ok 0 rs'
  end.
