(* Std/Net.v — model of the net package functions golibs delegates to (go1.24.2):
   IP.To4 / To16, IPMask.Size, IPNet.Contains, strconv helpers.  Modelled, not
   verified; validated against the real functions by the correspondence streams. *)
From Verif Require Import Base.GoPrim Base.Strings.

Definition v4_in_v6_prefix : list Z := [0;0;0;0;0;0;0;0;0;0;255;255].

(* net.IP.To4: nil unless a 4-byte slice or a 16-byte IPv4-mapped one *)
Definition to4 (ip : list Z) : option (list Z) :=
  if len ip =? 4 then Some ip
  else if (len ip =? 16) && eqb_str (firstn 12 ip) v4_in_v6_prefix then Some (skipn 12 ip)
  else None.

(* net.IP.To16 *)
Definition to16 (ip : list Z) : option (list Z) :=
  if len ip =? 4 then Some (v4_in_v6_prefix ++ ip)
  else if len ip =? 16 then Some ip
  else None.

(* strconv.Itoa / FormatUint(., 10) for non-negative numbers *)
Fixpoint digits_fuel (fuel : nat) (n : Z) (acc : gostring) : gostring :=
  match fuel with
  | O => acc
  | S f => let acc' := (48 + n mod 10) :: acc in
           if n / 10 =? 0 then acc' else digits_fuel f (n / 10) acc'
  end.

Definition itoa (n : Z) : gostring := digits_fuel 20 n [].

Definition hexdigit (n : Z) : Z := if n <? 10 then 48 + n else 87 + n.   (* lower case *)

(* strconv.ParseUint(s, 10, 8): non-empty, digits only, value <= 255 *)
Fixpoint parse_uint8_from (s : gostring) (n : Z) : option Z :=
  match s with
  | [] => Some n
  | c :: t => if is_digit c then
                let n' := n * 10 + (c - 48) in
                if 255 <? n' then None else parse_uint8_from t n'
              else None
  end.

Definition parse_uint8 (s : gostring) : option Z :=
  match s with [] => None | _ => parse_uint8_from s 0 end.
