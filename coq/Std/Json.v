(* Std/Json.v — encoding/json string literals (go1.24.2): the encoder
   appendString (HTML escaping on, as json.Marshal uses it, or off, as the
   hybrid log handler's encoder uses it) and the decoder for a string value
   (scanner validity + unquoteBytes).  Modelled, validated against the real
   package by the C14 / C19 correspondence. *)
From Verif Require Import Base.GoPrim Base.Strings Std.Utf8.

Definition hexlow (n : Z) : Z := if n <? 10 then 48 + n else 87 + n.

(* safeSet: printable ASCII and DEL except the double quote and the backslash; htmlSafeSet also excludes < > & *)
Definition json_safe (escape_html : bool) (b : Z) : bool :=
  (32 <=? b) && (b <? 128) && negb (b =? 34) && negb (b =? 92) &&
  negb (escape_html && ((b =? 60) || (b =? 62) || (b =? 38))).

Definition json_escape_byte (b : Z) : gostring :=
  if (b =? 92) || (b =? 34) then [92; b]
  else if b =? 8 then [92; 98]
  else if b =? 12 then [92; 102]
  else if b =? 10 then [92; 110]
  else if b =? 13 then [92; 114]
  else if b =? 9 then [92; 116]
  else [92; 117; 48; 48; hexlow (b / 16); hexlow (b mod 16)].

Fixpoint jquote_body (fuel : nat) (escape_html : bool) (src : gostring) : gostring :=
  match fuel with
  | O => []
  | S f =>
      match src with
      | [] => []
      | b :: t =>
          if b <? 128 then
            (if json_safe escape_html b then [b] else json_escape_byte b) ++ jquote_body f escape_html t
          else
            let '(c, size) := decode src in
            if (c =? rune_error) && (size =? 1) then
              [92; 117; 102; 102; 102; 100] ++ jquote_body f escape_html t            (* � *)
            else if (c =? 8232) || (c =? 8233) then
              [92; 117; 50; 48; 50; hexlow (c mod 16)] ++ jquote_body f escape_html (skipn (Z.to_nat size) src)
            else firstn (Z.to_nat size) src ++ jquote_body f escape_html (skipn (Z.to_nat size) src)
      end
  end.

Definition jquote (escape_html : bool) (src : gostring) : gostring :=
  34 :: jquote_body (length src) escape_html src ++ [34].

(* ---- decoding ---- *)

Definition hexval_any (c : Z) : option Z :=
  if (48 <=? c) && (c <=? 57) then Some (c - 48)
  else if (97 <=? c) && (c <=? 102) then Some (c - 87)
  else if (65 <=? c) && (c <=? 70) then Some (c - 55)
  else None.

(* getu4 on a text starting with \uXXXX: the code unit, or None *)
Definition getu4 (s : gostring) : option Z :=
  match s with
  | c0 :: c1 :: a :: b :: c :: d :: _ =>
      if (c0 =? 92) && (c1 =? 117) then
        match hexval_any a, hexval_any b, hexval_any c, hexval_any d with
        | Some x, Some y, Some z, Some w => Some (x * 4096 + y * 256 + z * 16 + w)
        | _, _, _, _ => None
        end
      else None
  | _ => None
  end.

Definition is_surrogate (r : Z) : bool := (55296 <=? r) && (r <? 57344).

(* utf16.DecodeRune *)
Definition utf16_decode (r1 r2 : Z) : Z :=
  if (55296 <=? r1) && (r1 <? 56320) && (56320 <=? r2) && (r2 <? 57344)
  then (r1 - 55296) * 1024 + (r2 - 56320) + 65536
  else rune_error.

(* utf8.EncodeRune, which turns surrogates and out-of-range values into U+FFFD *)
Definition encode_rune (r : Z) : gostring :=
  if is_scalar r then encode r else encode rune_error.

(* the scanner's view of a string literal body (after the opening quote): well-formed escapes,
   no control bytes, ends at the closing quote with nothing after it *)
Definition simple_escape (e : Z) : bool :=
  (e =? 98) || (e =? 102) || (e =? 110) || (e =? 114) || (e =? 116) || (e =? 92) || (e =? 47) || (e =? 34).

Fixpoint jscan_body (fuel : nat) (s : gostring) : bool :=
  match fuel with
  | O => false
  | S f =>
      match s with
      | [] => false
      | c :: t =>
          if c =? 34 then match t with [] => true | _ => false end
          else if c =? 92 then
            match t with
            | [] => false
            | e :: t' =>
                if simple_escape e then jscan_body f t'
                else if e =? 117 then
                  match t' with
                  | a :: b :: c' :: d :: t'' =>
                      match hexval_any a, hexval_any b, hexval_any c', hexval_any d with
                      | Some _, Some _, Some _, Some _ => jscan_body f t''
                      | _, _, _, _ => false
                      end
                  | _ => false
                  end
                else false
            end
          else if c <? 32 then false
          else jscan_body f t
      end
  end.

(* the byte a one-letter escape stands for (unquoteBytes also accepts \' ) *)
Definition unescape_simple (e : Z) : option Z :=
  if (e =? 34) || (e =? 92) || (e =? 47) || (e =? 39) then Some e
  else if e =? 98 then Some 8
  else if e =? 102 then Some 12
  else if e =? 110 then Some 10
  else if e =? 114 then Some 13
  else if e =? 116 then Some 9
  else None.

Definition cons_opt (pre : gostring) (r : option gostring) : option gostring :=
  match r with Some x => Some (pre ++ x) | None => None end.

(* unquoteBytes on the body (between the quotes) *)
Fixpoint junquote_body (fuel : nat) (s : gostring) : option gostring :=
  match fuel with
  | O => match s with [] => Some [] | _ => None end
  | S f =>
      match s with
      | [] => Some []
      | c :: t =>
          if c =? 92 then
            match t with
            | [] => None
            | e :: t' =>
                match unescape_simple e with
                | Some b => cons_opt [b] (junquote_body f t')
                | None =>
                    if e =? 117 then
                      match getu4 s with
                      | None => None
                      | Some rr =>
                          let after := skipn 6 s in
                          if is_surrogate rr then
                            let rr1 := match getu4 after with Some x => x | None => -1 end in
                            let dec := utf16_decode rr rr1 in
                            if negb (dec =? rune_error) then cons_opt (encode_rune dec) (junquote_body f (skipn 6 after))
                            else cons_opt (encode_rune rune_error) (junquote_body f after)
                          else cons_opt (encode_rune rr) (junquote_body f after)
                      end
                    else None
                end
            end
          else if (c =? 34) || (c <? 32) then None
          else if c <? 128 then cons_opt [c] (junquote_body f t)
          else
            let '(rr, size) := decode s in
            cons_opt (encode_rune rr) (junquote_body f (skipn (Z.to_nat size) s))
      end
  end.

(* json.Unmarshal of a string-literal token into a Go string *)
Definition junquote (tok : gostring) : option gostring :=
  match tok with
  | 34 :: body =>
      if jscan_body (S (length body)) body then
        junquote_body (S (length body)) (removelast body)
      else None
  | _ => None
  end.
