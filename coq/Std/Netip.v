(* Std/Netip.v — model of net/netip parsing (go1.24.2), transcribed from the
   toolchain source.  Modelled, not verified: validated against the real
   netip.ParseAddr / ParseAddrPort by the correspondence streams. *)
From Verif Require Import Base.GoPrim Base.Strings.

(* a parsed address: 4 or 16 value bytes, and the zone (IPv6 only) *)
Inductive paddr : Type :=
| P4 (b : list Z)
| P6 (b : list Z) (zone : gostring).

(* parseIPv4Fields on s = in[off:end]; [i0]: i == 0; [prevdot]: s[i-1] == '.' *)
Fixpoint parse_v4_fields (s : gostring) (i0 prevdot : bool) (val pos dig : Z) (acc : list Z) : option (list Z) :=
  match s with
  | [] => if pos <? 3 then None else Some (rev (val :: acc))
  | c :: t =>
      if is_digit c then
        if (dig =? 1) && (val =? 0) then None
        else
          let val' := val * 10 + (c - 48) in
          if 255 <? val' then None else parse_v4_fields t false false val' pos (dig + 1) acc
      else if c =? 46 then
        if i0 || (match t with [] => true | _ => false end) || prevdot then None
        else if pos =? 3 then None
        else parse_v4_fields t false true 0 (pos + 1) 0 (val :: acc)
      else None
  end.

Definition parse_ipv4 (s : gostring) : option (list Z) := parse_v4_fields s true false 0 0 0 [].

Definition hexval (c : Z) : option Z :=
  if is_digit c then Some (c - 48)
  else if (97 <=? c) && (c <=? 102) then Some (c - 97 + 10)
  else if (65 <=? c) && (c <=? 70) then Some (c - 65 + 10)
  else None.

(* the inner hex-digit loop: Some (off, acc, rest) at the break, None on an error *)
Fixpoint scan_hex (s : gostring) (off acc : Z) : option (Z * Z * gostring) :=
  match s with
  | [] => Some (off, acc, [])
  | c :: t =>
      match hexval c with
      | None => Some (off, acc, s)
      | Some v =>
          let acc' := acc * 16 + v in
          if 3 <? off then None
          else if 65535 <? acc' then None
          else scan_hex t (off + 1) acc'
      end
  end.

(* the outer loop of parseIPv6; ip = bytes written so far (i = len ip);
   returns (ip, ellipsis, remaining s) at the loop exit *)
Fixpoint v6_loop (fuel : nat) (s : gostring) (ip : list Z) (ell : option Z) : option (list Z * option Z * gostring) :=
  match fuel with
  | O => None
  | S fuel' =>
      if 16 <=? len ip then Some (ip, ell, s)
      else
        match scan_hex s 0 0 with
        | None => None
        | Some (off, acc, rest) =>
            if off =? 0 then None
            else
              match rest with
              | 46 :: _ =>
                  if (match ell with None => true | Some _ => false end) && negb (len ip =? 12) then None
                  else if 16 <? len ip + 4 then None
                  else match parse_ipv4 s with
                       | None => None
                       | Some f4 => Some (ip ++ f4, ell, [])
                       end
              | _ =>
                  let ip' := ip ++ [acc / 256; acc mod 256] in
                  match rest with
                  | [] => Some (ip', ell, [])
                  | c :: r1 =>
                      if negb (c =? 58) then None
                      else match r1 with
                           | [] => None                               (* colon must be followed by more characters *)
                           | c2 :: r2 =>
                               if c2 =? 58 then
                                 match ell with
                                 | Some _ => None                     (* multiple :: *)
                                 | None =>
                                     match r2 with
                                     | [] => Some (ip', Some (len ip'), [])
                                     | _ => v6_loop fuel' r2 ip' (Some (len ip'))
                                     end
                                 end
                               else v6_loop fuel' r1 ip' ell
                           end
                  end
              end
        end
  end.

Definition zeros (n : Z) : list Z := repeat 0 (Z.to_nat n).

Definition parse_ipv6 (input : gostring) : option paddr :=
  let i := index_byte input 37 in
  let s := if i =? -1 then input else firstn (Z.to_nat i) input in
  let zone := if i =? -1 then [] else skipn (Z.to_nat (i + 1)) input in
  if negb (i =? -1) && (len zone =? 0) then None
  else
    let '(s1, ell0) :=
      match s with
      | 58 :: 58 :: r => (r, Some 0)
      | _ => (s, None)
      end in
    match ell0, s1 with
    | Some _, [] => Some (P6 (zeros 16) zone)
    | _, _ =>
        match v6_loop 9 s1 [] ell0 with
        | None => None
        | Some (ip, ell, rest) =>
            if negb (len rest =? 0) then None
            else if len ip <? 16 then
              match ell with
              | None => None
              | Some e =>
                  Some (P6 (firstn (Z.to_nat e) ip ++ zeros (16 - len ip) ++ skipn (Z.to_nat e) ip) zone)
              end
            else match ell with
                 | Some _ => None
                 | None => Some (P6 ip zone)
                 end
        end
    end.

(* ParseAddr: dispatch on the first of '.', ':', '%' *)
Fixpoint first_special (s : gostring) : Z :=
  match s with
  | [] => 0
  | c :: t => if (c =? 46) || (c =? 58) || (c =? 37) then c else first_special t
  end.

Definition parse_addr (s : gostring) : option paddr :=
  let c := first_special s in
  if c =? 46 then match parse_ipv4 s with Some b => Some (P4 b) | None => None end
  else if c =? 58 then parse_ipv6 s
  else None.

(* strconv.ParseUint(s, 10, 16): digits only, non-empty, value <= 65535 *)
Fixpoint parse_uint16_from (s : gostring) (n : Z) : option Z :=
  match s with
  | [] => Some n
  | c :: t => if is_digit c then
                let n' := n * 10 + (c - 48) in
                if 65535 <? n' then None else parse_uint16_from t n'
              else None
  end.

Definition parse_uint16 (s : gostring) : option Z :=
  match s with [] => None | _ => parse_uint16_from s 0 end.

Fixpoint last_index_byte_from (c : Z) (s : gostring) (i : Z) (best : Z) : Z :=
  match s with
  | [] => best
  | x :: t => last_index_byte_from c t (i + 1) (if x =? c then i else best)
  end.

Definition last_index_byte (s : gostring) (c : Z) : Z := last_index_byte_from c s 0 (-1).

(* ParseAddrPort *)
Definition parse_addr_port (s : gostring) : option (paddr * Z) :=
  let i := last_index_byte s 58 in
  if i =? -1 then None
  else
    let ip := firstn (Z.to_nat i) s in
    let port := skipn (Z.to_nat (i + 1)) s in
    if len ip =? 0 then None
    else if len port =? 0 then None
    else
      let '(ip', v6, ok) :=
        match ip with
        | 91 :: _ =>
            if (len ip <? 2) || negb (last_or ip 0 =? 93) then (ip, false, false)
            else (removelast (tl ip), true, true)
        | _ => (ip, false, true)
        end in
      if negb ok then None
      else match parse_uint16 port with
           | None => None
           | Some p =>
               match parse_addr ip' with
               | None => None
               | Some (P4 b) => if v6 then None else Some (P4 b, p)
               | Some (P6 b z) => if v6 then Some (P6 b z, p) else None
               end
           end.
